(* Proofs about the TaskGroup LTS (model/TaskGroup.v): C09 and C10. *)
From AV Require Import Base Gen_curio TaskGroup.

(* the two probed facts (gen/Gen_curio.v, regenerated from /repo on every run) *)
Lemma probe_recancels : join_recancels_late_members = true.
Proof. reflexivity. Qed.
Lemma probe_refused : add_refused_after_join = true.
Proof. reflexivity. Qed.

(* ---------- association list ---------- *)
Lemma get_set_same t m l : get t (set t m l) = Some m.
Proof.
  induction l as [|[x m0] l IH]; cbn; [now rewrite N.eqb_refl|].
  destruct (N.eqb x t) eqn:E; cbn; rewrite E; auto.
Qed.
Lemma get_set_other t t' m l : t <> t' -> get t' (set t m l) = get t' l.
Proof.
  intros Hne. induction l as [|[x m0] l IH]; cbn.
  - destruct (N.eqb_spec t t'); [contradiction|reflexivity].
  - destruct (N.eqb_spec x t) as [->|Hx]; cbn.
    + destruct (N.eqb_spec t t'); [contradiction|reflexivity].
    + destruct (N.eqb x t'); auto.
Qed.
Lemma memN_In x l : memN x l = true <-> In x l.
Proof.
  unfold memN. rewrite existsb_exists. split.
  - intros (y & Hy & E). apply N.eqb_eq in E. now subst.
  - intros H. exists x. split; [auto|apply N.eqb_refl].
Qed.
Lemma removeN_In x y l : In y (removeN x l) <-> In y l /\ y <> x.
Proof.
  unfold removeN. rewrite filter_In. split; intros [H1 H2]; split; auto.
  - intros ->. rewrite N.eqb_refl in H2. discriminate.
  - destruct (N.eqb_spec x y) as [E|E]; [congruence|reflexivity].
Qed.

(* ---------- the invariants ---------- *)
Definition is_fin (m : member) : bool := match m_status m with Fin _ => true | _ => false end.
Definition AllFin (g : tg) : Prop := forall t m, get t (members g) = Some m -> is_fin m = true.

(* every unfinished member is tracked by the group *)
Definition Tracked (g : tg) : Prop :=
  forall t m, get t (members g) = Some m -> is_fin m = false -> In t (pending g) \/ In t (daemons g).
(* a callback in the ready queue belongs to a finished task *)
Definition cb_target (c : cb) : N := match c with OnDone t | Pop t => t end.
Definition QueueFin (g : tg) : Prop :=
  forall c, In (HCb c) (queue g) -> finished g (cb_target c) = true.
(* the callbacks registered on a task concern that task *)
Definition CbsOwn (g : tg) : Prop :=
  forall t m c, get t (members g) = Some m -> In c (m_cbs m) -> cb_target c = t.
(* once join has set `joined`, every member has finished *)
Definition Closed (g : tg) : Prop := joined g = true -> AllFin g.
(* how the joining task can have ended: JEnded cancelled entered joined_set *)
Definition EndedShape (g : tg) : Prop :=
  forall c e j, pc g = JEnded c e j ->
    (j = true -> joined g = true) /\ (c = false -> j = true) /\ (j = true -> e = true).

Definition Core (g : tg) : Prop := Tracked g /\ QueueFin g /\ CbsOwn g.
Definition Good (g : tg) : Prop := Core g /\ Closed g /\ EndedShape g.

Lemma finished_get g t : finished g t = true <-> exists m, get t (members g) = Some m /\ is_fin m = true.
Proof.
  unfold finished, status, is_fin. destruct (get t (members g)) as [m|]; cbn.
  - split; [intros H; exists m; split; auto; destruct (m_status m); auto; discriminate
           |intros (m' & E & H); injection E as <-; destruct (m_status m); auto; discriminate].
  - split; [discriminate|intros (m' & E & _); discriminate].
Qed.

Lemma finished_status g g' t : status g' t = status g t -> finished g' t = finished g t.
Proof. unfold finished. now intros ->. Qed.

(* ---------- updates that leave members, pending and daemons alone ---------- *)
Lemma core_upd g g' : Core g -> members g' = members g -> pending g' = pending g -> daemons g' = daemons g ->
  (forall h, In h (queue g') -> In h (queue g) \/ h = HJoiner) -> Core g'.
Proof.
  intros (Ht & Hq & Hc) Hm Hp Hd Hqu. split; [|split].
  - intros t m. rewrite Hm, Hp, Hd. apply Ht.
  - intros c Hin. unfold finished, status. rewrite Hm. destruct (Hqu _ Hin) as [H|H]; [apply (Hq c H)|discriminate].
  - intros t m c. rewrite Hm. apply Hc.
Qed.

Lemma good_upd g g' : Good g -> members g' = members g -> pending g' = pending g -> daemons g' = daemons g ->
  (forall h, In h (queue g') -> In h (queue g) \/ h = HJoiner) -> joined g' = joined g ->
  (pc g' = pc g \/ forall c e j, pc g' = JEnded c e j -> c = true /\ j = false) -> Good g'.
Proof.
  intros (Hc & Hcl & He) Hm Hp Hd Hq Hj Hpc. split; [eapply core_upd; eauto|split].
  - unfold Closed, AllFin. rewrite Hj, Hm. exact Hcl.
  - intros c e j E. rewrite Hj. destruct Hpc as [Hpc|Hpc].
    + rewrite Hpc in E. apply (He _ _ _ E).
    + destruct (Hpc _ _ _ E) as [-> ->]. repeat split; discriminate.
Qed.

Ltac queue_le :=
  let h := fresh "h" in let Hh := fresh "Hh" in
  intros h Hh; cbn in Hh;
  first [ now left
        | apply in_app_or in Hh as [Hh|[<-|[]]]; [now left|now right]
        | (left; now apply in_cons) ].
Ltac pc_ok :=
  first [ left; reflexivity
        | right; let c := fresh in let e := fresh in let j := fresh in let E := fresh in
          intros c e j E; cbn in E; first [discriminate | injection E as <- <- <-; split; reflexivity] ].
Ltac gupd H := apply (good_upd _ _ H); [reflexivity|reflexivity|reflexivity|queue_le|reflexivity|pc_ok].

(* ---------- primitive operations ---------- *)
Lemma sem_release_core g :
  members (sem_release g) = members g /\ pending (sem_release g) = pending g /\
  daemons (sem_release g) = daemons g /\ joined (sem_release g) = joined g /\ pc (sem_release g) = pc g /\
  (forall h, In h (queue (sem_release g)) -> In h (queue g) \/ h = HJoiner).
Proof.
  unfold sem_release. cbn. destruct (pc g) eqn:Ep, (wake g); cbn; repeat split; auto.
  all: try (intros h Hh; apply in_app_or in Hh as [Hh|[<-|[]]]; auto).
Qed.

Lemma on_done_facts g t :
  members (on_done g t) = members g /\ joined (on_done g t) = joined g /\ pc (on_done g t) = pc g /\
  (forall h, In h (queue (on_done g t)) -> In h (queue g) \/ h = HJoiner) /\
  (forall x, In x (pending (on_done g t)) -> In x (pending g)) /\
  (forall x, In x (daemons (on_done g t)) -> In x (daemons g)) /\
  (forall x, x <> t -> In x (pending g) -> In x (pending (on_done g t))) /\
  (forall x, x <> t -> In x (daemons g) -> In x (daemons (on_done g t))).
Proof.
  unfold on_done. destruct (get t (members g)) as [m|]; [|repeat split; auto].
  destruct (m_daemon m).
  - cbn. repeat split; auto.
    + intros x Hx. now apply removeN_In in Hx.
    + intros x Hne Hx. apply removeN_In. auto.
  - set (g1 := upd_group g (removeN t (pending g)) (daemons g) (doneq g ++ [t]) (semv g)).
    destruct (sem_release_core g1) as (S1 & S2 & S3 & S4 & S5 & S6).
    rewrite S1, S2, S3, S4, S5. cbn. repeat split; auto.
    + intros x Hx. now apply removeN_In in Hx.
    + intros x Hne Hx. apply removeN_In. auto.
Qed.

Lemma on_done_good g t : finished g t = true -> Good g -> Good (on_done g t).
Proof.
  intros Hf ((Ht & Hq & Hc) & Hcl & He).
  destruct (on_done_facts g t) as (F1 & F2 & F3 & F4 & F5 & F6 & F7 & F8).
  split; [split; [|split]|split].
  - intros t' m'. rewrite F1. intros Hg Hn.
    assert (t' <> t).
    { intros ->. apply finished_get in Hf as (m0 & E0 & Hfin). rewrite Hg in E0. injection E0 as <-. congruence. }
    destruct (Ht t' m' Hg Hn) as [H1|H1]; [left; now apply F7|right; now apply F8].
  - intros c Hin. unfold finished, status. rewrite F1. destruct (F4 _ Hin) as [H1|H1]; [apply (Hq c H1)|discriminate].
  - intros t' m' c. rewrite F1. apply Hc.
  - unfold Closed, AllFin. rewrite F1, F2. exact Hcl.
  - intros c e j. rewrite F2, F3. apply He.
Qed.

(* ---------- operations on members that keep the frame ---------- *)
Definition MemLe (t : N) (m m' : member) : Prop :=
  m_daemon m' = m_daemon m /\
  (m_status m' = m_status m \/ (m_status m = Run /\ m_status m' = RunC)) /\
  (forall c, In c (m_cbs m') -> In c (m_cbs m) \/ c = Pop t).

Lemma memle_refl t m : MemLe t m m.
Proof. repeat split; auto. Qed.
Lemma memle_fin t m m' : MemLe t m m' -> is_fin m' = is_fin m.
Proof. intros (_ & [H|[H1 H2]] & _); unfold is_fin; [now rewrite H|now rewrite H1, H2]. Qed.
Lemma memle_trans t a b c : MemLe t a b -> MemLe t b c -> MemLe t a c.
Proof.
  intros (A1 & A2 & A3) (B1 & B2 & B3). split; [congruence|split].
  - destruct A2 as [A2|[A2 A2']], B2 as [B2|[B2 B2']]; try (left; congruence); try (right; split; congruence).
  - intros x Hx. destruct (B3 _ Hx) as [H|H]; auto.
Qed.

Definition Frame (g g' : tg) : Prop :=
  pending g' = pending g /\ daemons g' = daemons g /\ joined g' = joined g /\ pc g' = pc g /\
  (forall t' m', get t' (members g') = Some m' -> exists m, get t' (members g) = Some m /\ MemLe t' m m') /\
  (forall t' m, get t' (members g) = Some m -> exists m', get t' (members g') = Some m' /\ MemLe t' m m') /\
  (forall h, In h (queue g') -> In h (queue g) \/ exists t, h = HCb (Pop t) /\ finished g t = true).

Lemma frame_refl g : Frame g g.
Proof. repeat split; auto; intros; eexists; split; eauto using memle_refl. Qed.

Lemma frame_finished g g' : Frame g g' -> forall t, finished g' t = finished g t.
Proof.
  intros (_ & _ & _ & _ & A5 & A6 & _) t. unfold finished, status.
  destruct (get t (members g')) as [m'|] eqn:E'.
  - destruct (A5 _ _ E') as (m & E & Hle). rewrite E. cbn. apply memle_fin in Hle. unfold is_fin in Hle.
    destruct (m_status m'), (m_status m); auto; discriminate.
  - destruct (get t (members g)) as [m|] eqn:E; auto. destruct (A6 _ _ E) as (m' & E2 & _). congruence.
Qed.

Lemma frame_trans a b c : Frame a b -> Frame b c -> Frame a c.
Proof.
  intros FA FB. pose proof (frame_finished _ _ FA) as Hfa.
  destruct FA as (A1 & A2 & A3 & A4 & A5 & A6 & A7), FB as (B1 & B2 & B3 & B4 & B5 & B6 & B7).
  split; [congruence|]. split; [congruence|]. split; [congruence|]. split; [congruence|].
  split; [|split].
  - intros t' m' Hg. destruct (B5 _ _ Hg) as (m1 & Hg1 & E1). destruct (A5 _ _ Hg1) as (m2 & Hg2 & E2).
    exists m2. split; auto. eapply memle_trans; eauto.
  - intros t' m Hg. destruct (A6 _ _ Hg) as (m1 & Hg1 & E1). destruct (B6 _ _ Hg1) as (m2 & Hg2 & E2).
    exists m2. split; auto. eapply memle_trans; eauto.
  - intros h Hh. destruct (B7 _ Hh) as [Hh'|(t & -> & Hf)]; [now apply A7|]. right. exists t. split; auto. now rewrite <- Hfa.
Qed.

Lemma set_frame g t m m' : get t (members g) = Some m -> MemLe t m m' ->
  Frame g (upd_members g (set t m' (members g))).
Proof.
  intros Em Hle. split; [reflexivity|]. split; [reflexivity|]. split; [reflexivity|]. split; [reflexivity|].
  split; [|split].
  - intros t' m1 Hg. cbn in Hg. destruct (N.eqb_spec t t') as [<-|Hne].
    + rewrite get_set_same in Hg. injection Hg as <-. eauto.
    + rewrite get_set_other in Hg by auto. eauto using memle_refl.
  - intros t' m1 Hg. cbn. destruct (N.eqb_spec t t') as [<-|Hne].
    + rewrite get_set_same. rewrite Em in Hg. injection Hg as <-. eauto.
    + rewrite get_set_other by auto. eauto using memle_refl.
  - intros h Hh. now left.
Qed.

Lemma cancel_member_frame g t : Frame g (cancel_member g t).
Proof.
  unfold cancel_member. destruct (get t (members g)) as [m|] eqn:Em; [|apply frame_refl].
  destruct (m_status m) eqn:Es; try apply frame_refl.
  apply set_frame with m; auto. repeat split; cbn; auto.
Qed.

Lemma register_pop_frame g t : Frame g (register_pop g t).
Proof.
  unfold register_pop. destruct (get t (members g)) as [m|] eqn:Em; [|apply frame_refl].
  destruct (m_status m) eqn:Es.
  1,2: apply set_frame with m; auto; repeat split; cbn; auto;
       intros c Hc; apply in_app_or in Hc as [Hc|[<-|[]]]; auto.
  split; [reflexivity|]. split; [reflexivity|]. split; [reflexivity|]. split; [reflexivity|].
  split; [|split]; try (intros; eexists; split; eauto using memle_refl).
  intros h Hh. cbn in Hh. apply in_app_or in Hh as [Hh|[<-|[]]]; auto.
  right. exists t. split; auto. unfold finished, status. rewrite Em. cbn. now rewrite Es.
Qed.

Lemma fold_frame (f : tg -> N -> tg) : (forall g t, Frame g (f g t)) -> forall l g, Frame g (fold_left f l g).
Proof.
  intros Hf. induction l as [|t l IH]; intros g; cbn; [apply frame_refl|].
  eapply frame_trans; [apply Hf|apply IH].
Qed.

Lemma cancel_tasks_frame g ord : Frame g (cancel_tasks g ord).
Proof.
  unfold cancel_tasks. eapply frame_trans; apply fold_frame; [apply cancel_member_frame|apply register_pop_frame].
Qed.

Lemma frame_allfin g g' : Frame g g' -> AllFin g -> AllFin g'.
Proof.
  intros (_ & _ & _ & _ & A5 & _) H t m' Hg. destruct (A5 _ _ Hg) as (m & Hg0 & E).
  rewrite (memle_fin _ _ _ E). eapply H; eauto.
Qed.

Lemma frame_good g g' : Frame g g' -> Good g -> Good g'.
Proof.
  intros F ((Ht & Hq & Hc) & Hcl & He). pose proof (frame_finished _ _ F) as Hfin.
  pose proof (frame_allfin _ _ F) as Hall.
  destruct F as (A1 & A2 & A3 & A4 & A5 & A6 & A7).
  split; [split; [|split]|split].
  - intros t m' Hg Hn. rewrite A1, A2. destruct (A5 _ _ Hg) as (m & Hg0 & E). apply (Ht t m Hg0).
    rewrite <- (memle_fin _ _ _ E). exact Hn.
  - intros c Hin. rewrite Hfin. destruct (A7 _ Hin) as [H|(t & E & Hf)]; [now apply Hq|]. injection E as ->. exact Hf.
  - intros t m' c Hg Hin. destruct (A5 _ _ Hg) as (m & Hg0 & (_ & _ & E)).
    destruct (E _ Hin) as [H | ->]; [eapply Hc; eauto|reflexivity].
  - intros Hj. rewrite A3 in Hj. auto.
  - intros c e j. rewrite A3, A4. apply He.
Qed.

(* ---------- when nothing tracked is unfinished, everything has finished ---------- *)
Lemma tracked_empty_allfin g : Tracked g ->
  filter (fun t => negb (finished g t)) (pending g ++ daemons g) = [] -> AllFin g.
Proof.
  intros Ht He t m Hg. destruct (is_fin m) eqn:Ef; auto. exfalso.
  assert (Hin : In t (pending g ++ daemons g)) by (apply in_or_app; eapply Ht; eauto).
  assert (Hf : In t (filter (fun t => negb (finished g t)) (pending g ++ daemons g))).
  { apply filter_In. split; auto. apply negb_true_iff. destruct (finished g t) eqn:E; auto.
    apply finished_get in E as (m' & Hg' & Hf'). rewrite Hg in Hg'. injection Hg' as <-. congruence. }
  rewrite He in Hf. destruct Hf.
Qed.

Lemma tracked_nil_allfin g : Tracked g -> pending g ++ daemons g = [] -> AllFin g.
Proof. intros Ht He. apply tracked_empty_allfin; auto. now rewrite He. Qed.

Lemma ord_nil (set_ order : list N) :
  filter (fun t => memN t set_) order ++ filter (fun t => negb (memN t order)) set_ = [] -> set_ = [].
Proof.
  intros H. apply app_eq_nil in H as [H1 H2]. destruct set_ as [|x r]; auto. exfalso.
  destruct (memN x order) eqn:E.
  - apply memN_In in E. assert (In x (filter (fun t => memN t (x :: r)) order)).
    { apply filter_In. split; auto. cbn. now rewrite N.eqb_refl. }
    rewrite H1 in H. destruct H.
  - cbn in H2. rewrite E in H2. discriminate.
Qed.

(* ---------- the joining coroutine ---------- *)
Lemma end_join_good g : Good g -> AllFin g -> Good (end_join g).
Proof.
  intros (Hc & Hcl & He) Hall. split; [|split].
  - eapply core_upd; eauto.
  - intros _. exact Hall.
  - intros c e j E. cbn in E. injection E as <- <- <-. repeat split; auto.
Qed.

Lemma j_finally_good g order exc : Good g -> Good (j_finally g order exc).
Proof.
  intros Hg. unfold j_finally. cbv zeta.
  set (g0 := upd_joiner g (pc g) true (granted g) (wake g) (must_cancel g) exc (unfinished g) (joined g)
                        (completed g) (consumed g)).
  assert (H0 : Good g0) by (gupd Hg).
  destruct (filter (fun t => memN t (pending g ++ daemons g)) order ++
            filter (fun t => negb (memN t order)) (pending g ++ daemons g)) as [|x ord] eqn:Eo.
  - apply ord_nil in Eo. apply end_join_good; auto. apply tracked_nil_allfin; [apply H0|exact Eo].
  - assert (H1 : Good (cancel_tasks g0 (x :: ord))) by (eapply frame_good; [apply cancel_tasks_frame|exact H0]).
    gupd H1.
Qed.

Lemma j_loop_good order dq : forall g, Good g -> Good (j_loop dq g order).
Proof.
  induction dq as [|t rest IH]; intros g Hg; cbn [j_loop]; cbv zeta.
  - destruct (negb match pending g with [] => true | _ :: _ => false end && (semv g =? 0)%nat); [gupd Hg|].
    apply j_finally_good. destruct (negb match pending g with [] => true | _ :: _ => false end); [gupd Hg|exact Hg].
  - cbn [negb andb]. destruct (semv g =? 0)%nat; [gupd Hg|].
    match goal with |- Good (if ?b then _ else _) => destruct b end.
    + apply j_finally_good. gupd Hg.
    + apply IH. gupd Hg.
Qed.

Lemma join_entry_good g order : Good g -> Good (join_entry g order).
Proof.
  intros Hg. unfold join_entry. cbv zeta.
  set (g0 := upd_joiner g (pc g) true (granted g) (wake g) (must_cancel g) false (unfinished g) (joined g)
                        (completed g) (consumed g)).
  assert (H0 : Good g0) by (gupd Hg).
  destruct (pol g0); [apply j_loop_good|apply j_loop_good|apply j_loop_good|apply j_finally_good]; exact H0.
Qed.

Lemma joiner_step_good g order : Good g -> Good (joiner_step g order).
Proof.
  intros Hg. unfold joiner_step. rewrite probe_recancels. cbv beta iota zeta.
  set (cancelled := must_cancel g || match wake g with Some true => true | _ => false end).
  set (g0 := upd_joiner g (pc g) (entered g) (granted g) None false (jexc g) (unfinished g) (joined g)
                        (completed g) (consumed g)).
  assert (H0 : Good g0) by (gupd Hg).
  destruct (pc g0) eqn:Epc.
  - (* JNot *)
    destruct cancelled; [gupd H0|]. destruct (mode g0); try (apply join_entry_good; exact H0).
    match goal with |- Good (match ?o with [] => _ | _ => _ end) => destruct o as [|x ord] eqn:Eo end.
    + apply join_entry_good; exact H0.
    + assert (H1 : Good (cancel_tasks g0 (x :: ord))) by (eapply frame_good; [apply cancel_tasks_frame|exact H0]).
      gupd H1.
  - (* JNextDone *)
    destruct cancelled.
    + apply j_finally_good. destruct (granted g0); gupd H0.
    + match goal with |- Good (match ?o with [] => _ | _ => _ end) => destruct o end.
      * apply j_finally_good. gupd H0.
      * apply j_loop_good. gupd H0.
  - (* JCancelRem *)
    destruct cancelled; [gupd H0|apply join_entry_good; exact H0].
  - (* JCancelAll *)
    destruct cancelled; [gupd H0|].
    match goal with |- Good (match ?o with [] => _ | _ => _ end) => destruct o as [|x ord] eqn:Eo end.
    + apply ord_nil in Eo. apply end_join_good; auto. apply tracked_empty_allfin; [apply H0|exact Eo].
    + assert (H1 : Good (cancel_tasks g0 (x :: ord))) by (eapply frame_good; [apply cancel_tasks_frame|exact H0]).
      gupd H1.
  - exact H0.
Qed.

(* ---------- the other labels ---------- *)
Lemma add_task_good g t d st : Good g -> Good (fst (add_task g t d st)).
Proof.
  intros Hg. unfold add_task. rewrite probe_refused. cbn [andb]. destruct (joined g) eqn:Ej; [exact Hg|].
  destruct (get t (members g)) as [m0|] eqn:Em; [exact Hg|].
  set (m := {| m_daemon := d; m_status := st; m_cbs := [] |}).
  set (g1 := upd_members g (set t m (members g))).
  (* g1: the new member is there, with no callback, not yet tracked *)
  assert (Hg1m : forall t' m', get t' (members g1) = Some m' -> (t' = t /\ m' = m) \/ (t' <> t /\ get t' (members g) = Some m')).
  { intros t' m' H. cbn in H. destruct (N.eqb_spec t t') as [<-|Hne].
    - rewrite get_set_same in H. injection H as <-. now left.
    - rewrite get_set_other in H by auto. right. split; auto. }
  assert (Hfin1 : forall t', finished g t' = true -> finished g1 t' = true).
  { intros t' Hf. unfold finished, status in *. cbn. destruct (N.eqb_spec t t') as [<-|Hne].
    - rewrite Em in Hf. discriminate.
    - now rewrite get_set_other. }
  destruct Hg as ((Ht & Hq & Hc) & Hcl & He).
  assert (Hq1 : QueueFin g1) by (intros c Hin; apply Hfin1, (Hq c Hin)).
  assert (Hc1 : CbsOwn g1).
  { intros t' m' c Hg' Hin. destruct (Hg1m _ _ Hg') as [[-> ->]|[_ Hg0]]; [destruct Hin|eapply Hc; eauto]. }
  assert (Hcl1 : forall g', joined g' = joined g -> Closed g') by (intros g' E; unfold Closed; rewrite E, Ej; discriminate).
  destruct st as [| |o].
  3: { (* already finished: _on_done at once *)
    cbn [fst].
    assert (Hgood1 : Good g1).
    { split; [split; [|split]|split]; auto.
      intros t' m' Hg' Hn. destruct (Hg1m _ _ Hg') as [[-> ->]|[_ Hg0]]; [discriminate|apply (Ht _ _ Hg0 Hn)]. }
    apply on_done_good; auto. unfold finished, status. cbn. now rewrite get_set_same. }
  all: destruct d; cbn [fst].
  all: split; [split; [|split]|split]; auto; try (intros c e j; apply He).
  - intros t' m' Hg' Hn. cbn. destruct (Hg1m _ _ Hg') as [[-> ->]|[_ Hg0]].
    + right. apply in_or_app. right. now left.
    + destruct (Ht _ _ Hg0 Hn); [now left|right; apply in_or_app; now left].
  - (* non-daemon, running: the OnDone callback is registered *)
    intros t' m' Hg' Hn. cbn in Hg' |- *. destruct (N.eqb_spec t t') as [<-|Hne].
    + left. apply in_or_app. right. now left.
    + rewrite !get_set_other in Hg' by auto. destruct (Ht _ _ Hg' Hn); [left; apply in_or_app; now left|now right].
  - intros c Hin. cbn in Hin. unfold finished, status. cbn.
    pose proof (Hq c Hin) as Hf. unfold finished, status in Hf.
    destruct (N.eqb_spec t (cb_target c)) as [E|Hne]; [rewrite <- E, Em in Hf; discriminate|].
    now rewrite !get_set_other by auto.
  - intros t' m' c Hg' Hin. cbn in Hg'. destruct (N.eqb_spec t t') as [<-|Hne].
    + rewrite get_set_same in Hg'. injection Hg' as <-. cbn in Hin. destruct Hin as [<-|[]]. reflexivity.
    + rewrite !get_set_other in Hg' by auto. eapply Hc; eauto.
  - intros t' m' Hg' Hn. cbn. destruct (Hg1m _ _ Hg') as [[-> ->]|[_ Hg0]].
    + right. apply in_or_app. right. now left.
    + destruct (Ht _ _ Hg0 Hn); [now left|right; apply in_or_app; now left].
  - intros t' m' Hg' Hn. cbn in Hg' |- *. destruct (N.eqb_spec t t') as [<-|Hne].
    + left. apply in_or_app. right. now left.
    + rewrite !get_set_other in Hg' by auto. destruct (Ht _ _ Hg' Hn); [left; apply in_or_app; now left|now right].
  - intros c Hin. cbn in Hin. unfold finished, status. cbn.
    pose proof (Hq c Hin) as Hf. unfold finished, status in Hf.
    destruct (N.eqb_spec t (cb_target c)) as [E|Hne]; [rewrite <- E, Em in Hf; discriminate|].
    now rewrite !get_set_other by auto.
  - intros t' m' c Hg' Hin. cbn in Hg'. destruct (N.eqb_spec t t') as [<-|Hne].
    + rewrite get_set_same in Hg'. injection Hg' as <-. cbn in Hin. destruct Hin as [<-|[]]. reflexivity.
    + rewrite !get_set_other in Hg' by auto. eapply Hc; eauto.
Qed.

Lemma finish_member_good g t o : Good g -> Good (finish_member g t o).
Proof.
  intros Hg. unfold finish_member. destruct (get t (members g)) as [m|] eqn:Em; [|exact Hg].
  destruct (is_fin m) eqn:Efin.
  { unfold is_fin in Efin. destruct (m_status m); try discriminate. exact Hg. }
  set (m1 := {| m_daemon := m_daemon m; m_status := Fin o; m_cbs := [] |}).
  set (g2 := upd_queue (upd_members g (set t m1 (members g))) (queue g ++ map HCb (m_cbs m))).
  assert (Hgood2 : Good g2).
  { destruct Hg as ((Ht & Hq & Hc) & Hcl & He).
    assert (Hget : forall t' m', get t' (members g2) = Some m' ->
                                 (t' = t /\ m' = m1) \/ (t' <> t /\ get t' (members g) = Some m')).
    { intros t' m' H. cbn in H. destruct (N.eqb_spec t t') as [<-|Hne].
      - rewrite get_set_same in H. injection H as <-. now left.
      - rewrite get_set_other in H by auto. right. split; auto. }
    assert (Hfin2 : forall t', finished g t' = true -> finished g2 t' = true).
    { intros t' Hf. unfold finished, status in *. cbn. destruct (N.eqb_spec t t') as [<-|Hne].
      - now rewrite get_set_same.
      - now rewrite get_set_other. }
    split; [split; [|split]|split].
    - intros t' m' Hg' Hn. destruct (Hget _ _ Hg') as [[-> ->]|[_ Hg0]]; [discriminate|apply (Ht _ _ Hg0 Hn)].
    - intros c Hin. cbn in Hin. apply in_app_or in Hin as [Hin|Hin]; [apply Hfin2, (Hq c Hin)|].
      apply in_map_iff in Hin as (c' & E & Hin). injection E as ->. rewrite (Hc _ _ _ Em Hin).
      unfold finished, status. cbn. now rewrite get_set_same.
    - intros t' m' c Hg' Hin. destruct (Hget _ _ Hg') as [[-> ->]|[_ Hg0]]; [destruct Hin|eapply Hc; eauto].
    - intros Hj t' m' Hg'. destruct (Hget _ _ Hg') as [[-> ->]|[_ Hg0]]; [reflexivity|eapply (Hcl Hj); eauto].
    - intros c e j. apply He. }
  assert (Hres : Good (if m_daemon m then g2 else
            {| members := members g2; pending := pending g2; daemons := daemons g2; doneq := doneq g2;
               semv := semv g2; joined := joined g2; completed := completed g2; pol := pol g2;
               mode := mode g2; pc := pc g2; entered := entered g2; granted := granted g2; wake := wake g2;
               must_cancel := must_cancel g2; jexc := jexc g2; unfinished := unfinished g2;
               queue := queue g2; log_done := log_done g2 ++ [t]; consumed := consumed g2;
               app_consumed := app_consumed g2 |})).
  { destruct (m_daemon m); [exact Hgood2|]. gupd Hgood2. }
  unfold is_fin in Efin. destruct (m_status m); try discriminate; exact Hres.
Qed.

(* ---------- the application's next_done() before the join ---------- *)
Definition app_take (g : tg) (t : N) (rest : list N) (sv : nat) : tg :=
  {| members := members g; pending := pending g; daemons := daemons g; doneq := rest; semv := sv;
     joined := joined g; completed := completed g; pol := pol g; mode := mode g; pc := pc g;
     entered := entered g; granted := granted g; wake := wake g; must_cancel := must_cancel g;
     jexc := jexc g; unfinished := unfinished g; queue := queue g; log_done := log_done g;
     consumed := consumed g; app_consumed := app_consumed g ++ [t] |}.
Lemma app_next_cases g :
  app_next g = g \/
  exists t rest sv, pc g = JNot /\ consumed g = [] /\ doneq g = t :: rest /\ semv g = S sv /\ app_next g = app_take g t rest sv.
Proof.
  unfold app_next. destruct (pc g) eqn:Ep; auto. destruct (consumed g) eqn:Ec; auto.
  destruct (doneq g) as [|t rest] eqn:Ed; auto. destruct (semv g) as [|sv] eqn:Es; auto.
  right. exists t, rest, sv. repeat split; auto. unfold app_take. now rewrite Ep, Ec.
Qed.

Lemma app_next_frame g :
  members (app_next g) = members g /\ pending (app_next g) = pending g /\ daemons (app_next g) = daemons g /\
  joined (app_next g) = joined g /\ pc (app_next g) = pc g /\ queue (app_next g) = queue g /\
  completed (app_next g) = completed g /\ consumed (app_next g) = consumed g /\ pol (app_next g) = pol g /\
  log_done (app_next g) = log_done g /\ wake (app_next g) = wake g /\ granted (app_next g) = granted g /\
  entered (app_next g) = entered g /\ must_cancel (app_next g) = must_cancel g /\ jexc (app_next g) = jexc g /\
  unfinished (app_next g) = unfinished g /\ mode (app_next g) = mode g.
Proof.
  destruct (app_next_cases g) as [->|(t & rest & sv & _ & _ & _ & _ & ->)]; cbn; repeat split; reflexivity.
Qed.

Lemma step_good g l : Good g -> Good (step g l).
Proof.
  intros Hg. destruct l as [t d al|t o|t| | |h order|]; cbn [step].
  - apply add_task_good; exact Hg.
  - apply finish_member_good; exact Hg.
  - eapply frame_good; [apply cancel_member_frame|exact Hg].
  - destruct (pc g) eqn:Ep; try exact Hg. destruct (wake g); [exact Hg|]. gupd Hg.
  - unfold cancel_joiner. destruct (pc g) eqn:Ep; try (destruct (wake g)); try exact Hg; gupd Hg.
  - destruct (queue g) as [|h0 rest] eqn:Eq; [exact Hg|]. cbv zeta.
    assert (H1 : Good (upd_queue g rest)).
    { apply (good_upd _ _ Hg); try reflexivity; [|now left]. intros h' Hh. cbn in Hh. left. rewrite Eq. now right. }
    destruct h0 as [c|]; [|apply joiner_step_good; exact H1].
    assert (Hf : finished (upd_queue g rest) (cb_target c) = true).
    { destruct Hg as ((_ & Hq & _) & _). apply (Hq c). rewrite Eq. now left. }
    destruct c as [t|t]; cbn [run_cb]; [apply on_done_good; auto|]. cbv zeta.
    set (g1 := upd_joiner (upd_queue g rest) (pc (upd_queue g rest)) (entered (upd_queue g rest))
                 (granted (upd_queue g rest)) (wake (upd_queue g rest)) (must_cancel (upd_queue g rest))
                 (jexc (upd_queue g rest)) (removeN t (unfinished (upd_queue g rest))) (joined (upd_queue g rest))
                 (completed (upd_queue g rest)) (consumed (upd_queue g rest))).
    assert (H2 : Good g1) by (gupd H1).
    destruct (removeN t (unfinished (upd_queue g rest))); [|exact H2].
    destruct (pc g1); try exact H2; destruct (wake g1); try exact H2; gupd H2.
  - destruct (app_next_cases g) as [->|(t & rest & sv & _ & _ & _ & _ & ->)]; [exact Hg|]. unfold app_take. gupd Hg.
Qed.

Theorem reachable_good p m ls : Good (run p m ls).
Proof.
  unfold run. assert (H0 : Good (init p m)).
  { split; [split; [|split]|split].
    - intros t m0 H. discriminate.
    - intros c [].
    - intros t m0 c H. discriminate.
    - discriminate.
    - intros c e j H. discriminate. }
  revert H0. generalize (init p m). induction ls as [|l ls IH]; intros g Hg; cbn [fold_left]; [exact Hg|].
  apply IH, step_good, Hg.
Qed.

(* ---------- C09 ---------- *)
(* When the join has finished - returned, or re-raised the CancelledError that interrupted its
   wait for the next member - every task ever placed in the group has finished. *)
Theorem join_complete p m ls c e : pc (run p m ls) = JEnded c e true ->
  joined (run p m ls) = true /\ AllFin (run p m ls).
Proof.
  intros E. destruct (reachable_good p m ls) as (_ & Hcl & He). destruct (He _ _ _ E) as (H1 & _ & _).
  split; [auto|apply Hcl; auto].
Qed.

(* The joining task ending in any way but a CancelledError has completed the join. *)
Theorem join_not_cancelled_complete p m ls e j : pc (run p m ls) = JEnded false e j ->
  j = true /\ e = true /\ joined (run p m ls) = true /\ AllFin (run p m ls).
Proof.
  intros E. destruct (reachable_good p m ls) as (_ & Hcl & He). destruct (He _ _ _ E) as (H1 & H2 & H3).
  assert (j = true) by auto. subst j. repeat split; auto.
Qed.

(* Once joined is set, every member has finished whatever happens next, and nothing can be added. *)
Theorem joined_closed p m ls : joined (run p m ls) = true ->
  AllFin (run p m ls) /\ forall t d st, add_task (run p m ls) t d st = (run p m ls, false).
Proof.
  intros Hj. destruct (reachable_good p m ls) as (_ & Hcl & _). split; [apply Hcl; auto|].
  intros t d st. unfold add_task. now rewrite probe_refused, Hj.
Qed.

(* ---------- a generic preservation lemma for the joining coroutine ---------- *)
Section JoinerPres.
  Variable P : tg -> Prop.
  Hypothesis P_joiner : forall g p en gr wk mc je unf jd cm cs,
    P g -> (jd = joined g \/ jd = true) -> (cm = completed g \/ True) -> P (upd_joiner g p en gr wk mc je unf jd cm cs).
  Hypothesis P_group : forall g dq sv, P g -> P (upd_group g (pending g) (daemons g) dq sv).
  Hypothesis P_cancel : forall g ord, P g -> P (cancel_tasks g ord).

  Lemma j_finally_pres g order exc : P g -> P (j_finally g order exc).
  Proof.
    intros H. unfold j_finally. cbv zeta.
    match goal with |- context [match ?x with [] => _ | _ => _ end] => destruct x end.
    - unfold end_join. apply P_joiner; auto.
    - apply P_joiner; auto.
  Qed.

  Lemma j_loop_pres order dq : forall g, P g -> P (j_loop dq g order).
  Proof.
    induction dq as [|x dq IH]; intros g H; cbn [j_loop]; cbv zeta.
    - match goal with |- context [if ?b then _ else _] => destruct b end; [apply P_joiner; auto|].
      apply j_finally_pres. match goal with |- context [if ?b then _ else _] => destruct b end; auto.
    - cbn [negb andb]. destruct (semv g =? 0)%nat; [apply P_joiner; auto|].
      match goal with |- P (if ?b then _ else _) => destruct b end; [apply j_finally_pres|apply IH];
        apply P_joiner; auto; apply (P_group (upd_group g (pending g) (daemons g) (doneq g) (semv g - 1)));
        apply P_group; auto.
  Qed.

  Lemma join_entry_pres g order : P g -> P (join_entry g order).
  Proof.
    intros H. unfold join_entry. cbv zeta. cbn [pol upd_joiner].
    destruct (pol g); [apply j_loop_pres|apply j_loop_pres|apply j_loop_pres|apply j_finally_pres]; apply P_joiner; auto.
  Qed.

  Lemma joiner_step_pres g order : P g -> P (joiner_step g order).
  Proof.
    intros H. unfold joiner_step. cbv zeta.
    set (g0 := upd_joiner g (pc g) (entered g) (granted g) None false (jexc g) (unfinished g) (joined g)
                          (completed g) (consumed g)).
    assert (H0 : P g0) by (apply P_joiner; auto).
    destruct (pc g0).
    - match goal with |- context [if ?b then _ else _] => destruct b end; [apply P_joiner; auto|].
      destruct (mode g0); try (apply join_entry_pres; exact H0).
      match goal with |- context [match ?x with [] => _ | _ => _ end] => destruct x end; [apply join_entry_pres; exact H0|].
      apply P_joiner; auto; apply P_cancel; exact H0.
    - match goal with |- context [if ?b then _ else _] => destruct b end.
      + apply j_finally_pres. apply P_joiner; auto. destruct (granted g0); [apply P_group|]; exact H0.
      + match goal with |- context [match ?x with [] => _ | _ => _ end] => destruct x end.
        * apply j_finally_pres. apply P_joiner; auto.
        * apply j_loop_pres.
          match goal with |- P (upd_group ?G _ _ _ _) => apply (P_group G) end.
          apply P_joiner; auto.
    - match goal with |- context [if ?b then _ else _] => destruct b end; [apply P_joiner; auto|apply join_entry_pres; exact H0].
    - match goal with |- context [if ?b then _ else _] => destruct b end; [apply P_joiner; auto|].
      match goal with |- context [match ?x with [] => _ | _ => _ end] => destruct x end.
      + unfold end_join. apply P_joiner; auto.
      + apply P_joiner; auto; apply P_cancel; exact H0.
    - exact H0.
  Qed.
End JoinerPres.

(* ---------- after the join: joined stays set and the set of members is frozen ---------- *)
Definition keys (g : tg) : list N := map fst (members g).

Lemma set_keys t m l m0 : get t l = Some m0 -> map fst (set t m l) = map fst l.
Proof.
  induction l as [|[x mx] l IH]; cbn; [discriminate|].
  destruct (N.eqb x t); cbn; [reflexivity|]. intros H. now rewrite IH.
Qed.

Lemma cancel_tasks_keys g ord : keys (cancel_tasks g ord) = keys g /\ joined (cancel_tasks g ord) = joined g.
Proof.
  unfold cancel_tasks.
  assert (F : forall (f : tg -> N -> tg), (forall g t, keys (f g t) = keys g /\ joined (f g t) = joined g) ->
              forall l g, keys (fold_left f l g) = keys g /\ joined (fold_left f l g) = joined g).
  { intros f Hf. induction l as [|t l IH]; intros g0; cbn; [auto|]. destruct (IH (f g0 t)) as [-> ->]. apply Hf. }
  destruct (F register_pop) with (l := ord) (g := fold_left cancel_member ord g) as [-> ->].
  { intros g0 t. unfold register_pop, keys. destruct (get t (members g0)) eqn:E; auto.
    destruct (m_status m); cbn; auto; erewrite set_keys; eauto. }
  apply F. intros g0 t. unfold cancel_member, keys. destruct (get t (members g0)) eqn:E; auto.
  destruct (m_status m); cbn; auto; erewrite set_keys; eauto.
Qed.

Lemma after_join_step g l : joined g = true ->
  joined (step g l) = true /\ keys (step g l) = keys g.
Proof.
  intros Hj. destruct l as [t d al|t o|t| | |h order|]; cbn [step].
  - unfold add_task. now rewrite probe_refused, Hj.
  - unfold finish_member, keys. destruct (get t (members g)) eqn:E; auto.
    destruct (m_status m); auto; destruct (m_daemon m); cbn; split; auto; erewrite set_keys; eauto.
  - unfold cancel_member, keys. destruct (get t (members g)) eqn:E; auto.
    destruct (m_status m); cbn; auto; split; auto; erewrite set_keys; eauto.
  - destruct (pc g); auto; destruct (wake g); auto.
  - unfold cancel_joiner. destruct (pc g); auto; destruct (wake g); auto.
  - destruct (queue g) as [|h0 rest]; auto. cbv zeta. destruct h0 as [[t|t]|].
    + cbn [run_cb]. destruct (on_done_facts (upd_queue g rest) t) as (E1 & E2 & _). unfold keys. rewrite E1, E2. auto.
    + cbn [run_cb]. cbv zeta. repeat match goal with |- context [match ?x with _ => _ end] => destruct x end; auto.
    + apply (joiner_step_pres (fun g' => joined g' = true /\ keys g' = keys g)); auto.
      * intros g0 p en gr wk mc je unf jd cm cs [H1 H2] [->| ->] _; auto.
      * intros g0 ord [H1 H2]. destruct (cancel_tasks_keys g0 ord) as [-> ->]. auto.
  - destruct (app_next_frame g) as (E1 & _ & _ & E4 & _). unfold keys. rewrite E1, E4. auto.
Qed.

(* nothing can be added after the join: the set of members never changes again *)
Theorem no_add_after_join p m ls ls' : joined (run p m ls) = true ->
  joined (run p m (ls ++ ls')) = true /\ keys (run p m (ls ++ ls')) = keys (run p m ls).
Proof.
  unfold run. rewrite fold_left_app. generalize (fold_left step ls (init p m)). intros g Hj.
  revert g Hj. induction ls' as [|l ls' IH]; intros g Hj; cbn [fold_left]; [auto|].
  destruct (after_join_step g l Hj) as [H1 H2]. destruct (IH _ H1) as [H3 H4]. split; [auto|congruence].
Qed.

(* ---------- a finer preservation lemma: the queue of finished members is consumed in order ---------- *)
Section JoinerPres2.
  Variable P : tg -> Prop.
  Hypothesis P_joiner : forall g p en gr wk mc je unf jd,
    P g -> (jd = joined g \/ jd = true) -> P (upd_joiner g p en gr wk mc je unf jd (completed g) (consumed g)).
  Hypothesis P_sem : forall g sv, P g -> P (upd_group g (pending g) (daemons g) (doneq g) sv).
  Hypothesis P_consume : forall g t rest, doneq g = t :: rest -> P g -> P (consume g t rest).
  Hypothesis P_cancel : forall g ord, P g -> P (cancel_tasks g ord).

  Lemma j_finally_pres2 g order exc : P g -> P (j_finally g order exc).
  Proof.
    intros H. unfold j_finally. cbv zeta.
    match goal with |- context [match ?x with [] => _ | _ => _ end] => destruct x end.
    - unfold end_join. apply P_joiner; [|now right]. apply P_joiner; [exact H|now left].
    - apply (P_joiner (cancel_tasks _ _)); [|now left]. apply P_cancel. apply P_joiner; [exact H|now left].
  Qed.

  Lemma j_loop_pres2 order dq : forall g, doneq g = dq -> P g -> P (j_loop dq g order).
  Proof.
    induction dq as [|x dq IH]; intros g Hd H; cbn [j_loop]; cbv zeta.
    - match goal with |- context [if ?b then _ else _] => destruct b end; [apply P_joiner; [exact H|now left]|].
      apply j_finally_pres2. match goal with |- context [if ?b then _ else _] => destruct b end; [apply P_sem|]; exact H.
    - cbn [negb andb]. destruct (semv g =? 0)%nat; [apply P_joiner; [exact H|now left]|].
      assert (H1 : P (consume (upd_group g (pending g) (daemons g) (doneq g) (semv g - 1)) x dq))
        by (apply P_consume; [exact Hd|apply P_sem; exact H]).
      match goal with |- P (if ?b then _ else _) => destruct b end; [apply j_finally_pres2|apply IH; [reflexivity|]]; exact H1.
  Qed.

  Lemma join_entry_pres2 g order : P g -> P (join_entry g order).
  Proof.
    intros H. unfold join_entry. cbv zeta. cbn [pol upd_joiner].
    assert (H0 : P (upd_joiner g (pc g) true (granted g) (wake g) (must_cancel g) false (unfinished g) (joined g)
                               (completed g) (consumed g))) by (apply P_joiner; [exact H|now left]).
    destruct (pol g); [apply j_loop_pres2|apply j_loop_pres2|apply j_loop_pres2|apply j_finally_pres2]; auto.
  Qed.

  Lemma joiner_step_pres2 g order : P g -> P (joiner_step g order).
  Proof.
    intros H. unfold joiner_step. cbv zeta.
    set (g0 := upd_joiner g (pc g) (entered g) (granted g) None false (jexc g) (unfinished g) (joined g)
                          (completed g) (consumed g)).
    assert (H0 : P g0) by (apply P_joiner; [exact H|now left]).
    destruct (pc g0).
    - match goal with |- context [if ?b then _ else _] => destruct b end; [apply P_joiner; [exact H0|now left]|].
      destruct (mode g0); try (apply join_entry_pres2; exact H0).
      match goal with |- context [match ?x with [] => _ | _ => _ end] => destruct x end; [apply join_entry_pres2; exact H0|].
      apply (P_joiner (cancel_tasks _ _)); [|now left]. apply P_cancel; exact H0.
    - match goal with |- context [if ?b then _ else _] => destruct b end.
      + apply j_finally_pres2.
        match goal with |- P (upd_joiner ?G _ _ _ _ _ _ _ _ _ _) => apply (P_joiner G); [|now left] end.
        destruct (granted g0); [apply P_sem|]; exact H0.
      + match goal with |- context [match ?x with [] => _ | _ => _ end] => destruct x eqn:Ed end.
        * apply j_finally_pres2. apply P_joiner; [exact H0|now left].
        * rewrite <- Ed. apply j_loop_pres2; [reflexivity|].
          match goal with |- P (upd_group ?G _ _ _ _) => apply (P_sem G) end.
          apply P_joiner; [exact H0|now left].
    - match goal with |- context [if ?b then _ else _] => destruct b end;
        [apply P_joiner; [exact H0|now left]|apply join_entry_pres2; exact H0].
    - match goal with |- context [if ?b then _ else _] => destruct b end; [apply P_joiner; [exact H0|now left]|].
      match goal with |- context [match ?x with [] => _ | _ => _ end] => destruct x end.
      + unfold end_join. apply P_joiner; [exact H0|now right].
      + apply (P_joiner (cancel_tasks _ _)); [|now left]. apply P_cancel; exact H0.
    - exact H0.
  Qed.
End JoinerPres2.

(* ---------- C12, the task-group part: a cancelled join ends cancelled ---------- *)
Definition ended (g : tg) : bool := match pc g with JEnded _ _ _ => true | _ => false end.
(* a cancellation of the joining task is on its way *)
Definition CancelPending (g : tg) : Prop :=
  ended g = false /\
  (must_cancel g = true \/ wake g = Some true \/ (jexc g = true /\ pc g = JCancelAll)).
Definition EndedCancelled (g : tg) : Prop := exists e j, pc g = JEnded true e j.

Lemma cancel_tasks_jfields g ord :
  jexc (cancel_tasks g ord) = jexc g /\ must_cancel (cancel_tasks g ord) = must_cancel g /\
  wake (cancel_tasks g ord) = wake g.
Proof.
  unfold cancel_tasks.
  assert (F : forall (f : tg -> N -> tg),
            (forall g t, jexc (f g t) = jexc g /\ must_cancel (f g t) = must_cancel g /\ wake (f g t) = wake g) ->
            forall l g, jexc (fold_left f l g) = jexc g /\ must_cancel (fold_left f l g) = must_cancel g /\
                        wake (fold_left f l g) = wake g).
  { intros f Hf. induction l as [|t l IH]; intros g0; cbn; [auto|]. destruct (IH (f g0 t)) as (-> & -> & ->). apply Hf. }
  destruct (F register_pop) with (l := ord) (g := fold_left cancel_member ord g) as (-> & -> & ->).
  { intros g0 t. unfold register_pop. destruct (get t (members g0)); auto. destruct (m_status m); auto. }
  apply F. intros g0 t. unfold cancel_member. destruct (get t (members g0)); auto. destruct (m_status m); auto.
Qed.

Lemma cancel_joiner_pending g : ended g = false -> CancelPending (cancel_joiner g).
Proof.
  unfold ended, cancel_joiner, CancelPending. intros He.
  destruct (pc g) eqn:Ep; try discriminate; try (split; [cbn; now rewrite Ep|cbn; auto]);
    destruct (wake g); split; cbn; rewrite ?Ep; auto.
Qed.

Lemma j_finally_exc g order : jexc (j_finally g order true) = true /\
  (pc (j_finally g order true) = JEnded true true true \/ pc (j_finally g order true) = JCancelAll).
Proof.
  unfold j_finally. cbv zeta.
  match goal with |- context [match ?x with [] => _ | _ => _ end] => destruct x end; cbn; auto.
Qed.

(* steps other than the joining task's own keep a pending cancellation pending *)
Lemma sem_release_jfields g :
  must_cancel (sem_release g) = must_cancel g /\ jexc (sem_release g) = jexc g /\ pc (sem_release g) = pc g /\
  (wake g = Some true -> wake (sem_release g) = Some true).
Proof.
  unfold sem_release. cbn. destruct (pc g) eqn:Ep, (wake g) as [[]|] eqn:Ew; cbn; rewrite ?Ep, ?Ew; repeat split; auto;
    try (intros H; discriminate H).
Qed.

Lemma on_done_jfields g t :
  must_cancel (on_done g t) = must_cancel g /\ jexc (on_done g t) = jexc g /\ pc (on_done g t) = pc g /\
  (wake g = Some true -> wake (on_done g t) = Some true).
Proof.
  unfold on_done. destruct (get t (members g)); [|repeat split; auto]. destruct (m_daemon m); [repeat split; auto|].
  match goal with |- context [sem_release ?G] => destruct (sem_release_jfields G) as (-> & -> & -> & H) end.
  repeat split; auto.
Qed.

Lemma pop_jfields g t :
  must_cancel (run_cb g (Pop t)) = must_cancel g /\ jexc (run_cb g (Pop t)) = jexc g /\
  pc (run_cb g (Pop t)) = pc g /\ (wake g = Some true -> wake (run_cb g (Pop t)) = Some true).
Proof.
  cbn [run_cb]. cbv zeta. cbn [pc wake upd_joiner].
  destruct (removeN t (unfinished g)); destruct (pc g) eqn:Ep; destruct (wake g) as [[]|] eqn:Ew; cbn;
    rewrite ?Ep, ?Ew; repeat split; auto; try (intros H; discriminate H).
Qed.

Lemma pending_kept g g' : CancelPending g -> must_cancel g' = must_cancel g -> jexc g' = jexc g -> pc g' = pc g ->
  (wake g = Some true -> wake g' = Some true) -> CancelPending g'.
Proof.
  intros [He Hc] H1 H2 H3 H4. split; [unfold ended in *; now rewrite H3|]. rewrite H1, H2, H3.
  destruct Hc as [Hc|[Hc|Hc]]; auto.
Qed.

Theorem cancel_pending_step g l : CancelPending g -> CancelPending (step g l) \/ EndedCancelled (step g l).
Proof.
  intros Hp. destruct l as [t d al|t o|t| | |h order|]; cbn [step].
  - left. unfold add_task. destruct (add_refused_after_join && joined g); [exact Hp|].
    destruct (get t (members g)); [exact Hp|].
    destruct (match al with Some o => Fin o | None => Run end); cbn [fst];
      try (destruct d; apply (pending_kept g); auto; fail).
    match goal with |- CancelPending (on_done ?G t) => destruct (on_done_jfields G t) as (H1 & H2 & H3 & H4) end.
    apply (pending_kept g); auto.
  - left. unfold finish_member. destruct (get t (members g)); [|exact Hp].
    destruct (m_status m); try exact Hp; destruct (m_daemon m); apply (pending_kept g); auto.
  - left. unfold cancel_member. destruct (get t (members g)); [|exact Hp].
    destruct (m_status m); try exact Hp; apply (pending_kept g); auto.
  - left. destruct (pc g) eqn:Ep; try exact Hp. destruct (wake g) eqn:Ew; [exact Hp|].
    apply (pending_kept g); auto. cbn. congruence.
  - left. apply cancel_joiner_pending. apply Hp.
  - destruct (queue g) as [|h0 rest]; [now left|]. cbv zeta.
    assert (Hp1 : CancelPending (upd_queue g rest)) by (apply (pending_kept g); auto).
    destruct h0 as [[t|t]|].
    + left. cbn [run_cb]. destruct (on_done_jfields (upd_queue g rest) t) as (H1 & H2 & H3 & H4).
      apply (pending_kept (upd_queue g rest)); auto.
    + left. destruct (pop_jfields (upd_queue g rest) t) as (H1 & H2 & H3 & H4).
      apply (pending_kept (upd_queue g rest)); auto.
    + (* the joining task runs *)
      set (g1 := upd_queue g rest) in *. destruct Hp1 as [He Hc]. unfold joiner_step. cbv zeta.
      set (cancelled := must_cancel g1 || match wake g1 with Some true => true | _ => false end).
      set (g0 := upd_joiner g1 (pc g1) (entered g1) (granted g1) None false (jexc g1) (unfinished g1) (joined g1)
                            (completed g1) (consumed g1)).
      destruct cancelled eqn:Ec.
      * (* the CancelledError is thrown into the coroutine *)
        change (pc g0) with (pc g1). unfold ended in He. destruct (pc g1) eqn:Ep; try discriminate.
        -- right. exists false, false. reflexivity.
        -- match goal with |- context [j_finally ?G order true] => destruct (j_finally_exc G order) as (Hj & [Hpc|Hpc]) end.
           ++ right. exists true, true. exact Hpc.
           ++ left. split; [unfold ended; now rewrite Hpc|]. right. right. auto.
        -- right. exists false, false. reflexivity.
        -- right. exists true, false. reflexivity.
      * (* not cancelled at this step: the exception is already travelling through join's finally *)
        assert (Hm : must_cancel g1 = false /\ wake g1 <> Some true).
        { unfold cancelled in Ec. apply orb_false_iff in Ec as [E1 E2]. split; auto. intros E. now rewrite E in E2. }
        destruct Hc as [Hc|[Hc|[Hj Hpc]]]; [destruct Hm; congruence|destruct Hm; congruence|].
        change (pc g0) with (pc g1). rewrite Hpc.
        match goal with |- context [match ?x with [] => _ | _ => _ end] => destruct x as [|x0 xs] end.
        -- right. exists true, true. unfold end_join. cbn [pc upd_joiner]. change (jexc g0) with (jexc g1).
           now rewrite Hj.
        -- left. destruct (cancel_tasks_jfields g0 (x0 :: xs)) as (E1 & E2 & E3).
           split; [reflexivity|]. right. right. cbn [pc jexc upd_joiner]. split; [|reflexivity]. rewrite E1. exact Hj.
  - left. destruct (app_next_frame g) as (_ & _ & _ & _ & E5 & _ & _ & _ & _ & _ & E11 & _ & _ & E14 & E15 & _).
    apply (pending_kept g); auto. now rewrite E11.
Qed.

Lemma ended_cancelled_stays g l : EndedCancelled g -> EndedCancelled (step g l).
Proof.
  intros (e & j & Ep). exists e, j. destruct l as [t d al|t o|t| | |h order|]; cbn [step].
  - unfold add_task. destruct (add_refused_after_join && joined g); [exact Ep|].
    destruct (get t (members g)); [exact Ep|].
    destruct (match al with Some o => Fin o | None => Run end); cbn [fst]; try (destruct d; exact Ep).
    match goal with |- pc (on_done ?G t) = _ => destruct (on_done_jfields G t) as (_ & _ & -> & _) end. exact Ep.
  - unfold finish_member. destruct (get t (members g)); [|exact Ep].
    destruct (m_status m); try exact Ep; destruct (m_daemon m); exact Ep.
  - unfold cancel_member. destruct (get t (members g)); [|exact Ep]. destruct (m_status m); exact Ep.
  - rewrite Ep. exact Ep.
  - unfold cancel_joiner. rewrite Ep. exact Ep.
  - destruct (queue g) as [|h0 rest]; [exact Ep|]. cbv zeta. destruct h0 as [[t|t]|].
    + cbn [run_cb]. destruct (on_done_jfields (upd_queue g rest) t) as (_ & _ & -> & _). exact Ep.
    + destruct (pop_jfields (upd_queue g rest) t) as (_ & _ & -> & _). exact Ep.
    + unfold joiner_step. cbv zeta. cbn [pc upd_joiner upd_queue]. rewrite Ep. cbn. rewrite ?Ep. reflexivity.
  - destruct (app_next_frame g) as (_ & _ & _ & _ & -> & _). exact Ep.
Qed.

(* once task.cancel() has been called on a joining task that had not ended, it can only end cancelled *)
Theorem cancelled_join_ends_cancelled g ls : ended g = false ->
  forall c e j, pc (fold_left step ls (step g LCancelJoiner)) = JEnded c e j -> c = true.
Proof.
  intros He. pose proof (cancel_joiner_pending g He) as Hp. change (cancel_joiner g) with (step g LCancelJoiner) in Hp.
  assert (H : forall ls g0, CancelPending g0 \/ EndedCancelled g0 ->
                            CancelPending (fold_left step ls g0) \/ EndedCancelled (fold_left step ls g0)).
  { induction ls0 as [|l ls0 IH]; intros g0 H0; cbn [fold_left]; [exact H0|]. apply IH.
    destruct H0 as [H0|H0]; [apply cancel_pending_step; exact H0|right; apply ended_cancelled_stays; exact H0]. }
  intros c e j E. destruct (H ls _ (or_introl Hp)) as [[Hn _]|(e' & j' & E')].
  - unfold ended in Hn. rewrite E in Hn. discriminate.
  - rewrite E in E'. now injection E' as ->.
Qed.
