(* Proofs about the Bitcoin framer model (model/Bitcoin.v). *)
From AV Require Import Base Bitcoin.

Lemma firstn_app_len {A} n (a b : list A) : length a = n -> firstn n (a ++ b) = a.
Proof. intros <-. apply firstn_app_exact. Qed.
Lemma skipn_app_len {A} n (a b : list A) : length a = n -> skipn n (a ++ b) = b.
Proof. intros <-. apply skipn_app_exact. Qed.

(* ---------- ByteQueue.receive ---------- *)
Lemma bq_receive_stream : forall chunks n buf,
  match bq_receive n buf chunks with
  | Some (x, b', c') =>
      x = firstn (N.to_nat n) (buf ++ concat chunks) /\
      b' ++ concat c' = skipn (N.to_nat n) (buf ++ concat chunks) /\
      N.to_nat n <= length (buf ++ concat chunks)
  | None => length (buf ++ concat chunks) < N.to_nat n
  end.
Proof.
  induction chunks as [|c cs IH]; intros n buf; cbn [bq_receive].
  - destruct (n <=? N.of_nat (length buf))%N eqn:E.
    + apply N.leb_le in E. cbn. rewrite !app_nil_r. repeat split; lia.
    + apply N.leb_gt in E. cbn. rewrite app_nil_r. lia.
  - destruct (n <=? N.of_nat (length buf))%N eqn:E.
    + apply N.leb_le in E. assert (H : N.to_nat n <= length buf) by lia.
      rewrite firstn_app, skipn_app.
      replace (N.to_nat n - length buf) with 0 by lia. cbn [firstn skipn].
      rewrite app_nil_r. repeat split; auto. rewrite app_length. lia.
    + specialize (IH n (buf ++ c)). cbn [concat]. rewrite app_assoc. exact IH.
Qed.

(* ---------- rstrip / pad ---------- *)
Definition no_trailing_nul (c : bytes) : Prop := rstrip0 c = c.

Lemma rstrip0_app_zeros c k : rstrip0 (c ++ repeat 0%N k) = rstrip0 c.
Proof.
  induction c as [|b c IH]; cbn.
  - induction k as [|k IHk]; cbn; auto. now rewrite IHk.
  - now rewrite IH.
Qed.

Lemma rstrip0_snoc c b : b <> 0%N -> rstrip0 (c ++ [b]) = c ++ [b].
Proof.
  intros Hb. induction c as [|x c IH]; cbn.
  - destruct (N.eqb b 0) eqn:E; [apply N.eqb_eq in E; contradiction|reflexivity].
  - rewrite IH. destruct (c ++ [b]) eqn:E2; [destruct c; discriminate|reflexivity].
Qed.
(* a command is representable iff it is empty or does not end with a NUL byte *)
Lemma no_trailing_nul_nil : no_trailing_nul [].
Proof. reflexivity. Qed.
Lemma no_trailing_nul_snoc c b : b <> 0%N -> no_trailing_nul (c ++ [b]).
Proof. apply rstrip0_snoc. Qed.
Lemma trailing_nul_not_representable c : c <> [] -> rstrip0 (c ++ [0%N]) <> c ++ [0%N].
Proof.
  intros _ H. assert (L : forall l, length (rstrip0 l) <= length l).
  { induction l as [|x l IHl]; cbn; auto. destruct (rstrip0 l); [destruct (N.eqb x 0)|]; cbn in *; lia. }
  assert (Z : forall l, rstrip0 (l ++ [0%N]) = rstrip0 l).
  { intros l. apply (rstrip0_app_zeros l 1). }
  rewrite Z in H. pose proof (L c) as Hl. rewrite H, app_length in Hl. cbn in Hl. lia.
Qed.

Lemma ends_nul_false c : ends_nul c = false -> no_trailing_nul c.
Proof.
  unfold ends_nul. destruct c as [|x c] using rev_ind; [intros _; reflexivity|].
  rewrite rev_app_distr. cbn. intros E. apply no_trailing_nul_snoc. now apply N.eqb_neq.
Qed.

Section Framer.
Variable cks : bytes -> bytes.
Variable P : params.
Hypothesis cks_len : forall p, length (cks p) = 4.
Hypothesis magic_len : length (p_magic P) = 4.

Notation receive_message := (receive_message cks P).
Notation parse_one := (parse_one cks P).
Notation frame := (frame cks P).
Notation oversized := (oversized P).

(* ---------- chunking independence: the chunked reader = the stream parser ---------- *)
Theorem receive_message_stream : forall buf chunks,
  let '(r, b, c) := receive_message buf chunks in
  parse_one (buf ++ concat chunks) = (r, b ++ concat c).
Proof.
  intros buf chunks. unfold Bitcoin.receive_message, Bitcoin.parse_one.
  pose proof (bq_receive_stream chunks 24%N buf) as H1.
  destruct (bq_receive 24 buf chunks) as [[[h b1] c1]|].
  - destruct H1 as (Hh & Hr & Hl). change (N.to_nat 24) with 24 in *.
    assert (E: (N.of_nat (length (buf ++ concat chunks)) <? 24)%N = false) by (apply N.ltb_ge; lia).
    rewrite E, <- Hh, <- Hr.
    destruct (negb (bytes_eqb (firstn 4 h) (p_magic P))); [reflexivity|].
    set (cmd := rstrip0 (firstn 12 (skipn 4 h))).
    set (len := le_value (firstn 4 (skipn 16 h))).
    destruct (oversized cmd len); [reflexivity|].
    pose proof (bq_receive_stream c1 len b1) as H2.
    destruct (bq_receive len b1 c1) as [[[pl b2] c2]|].
    + destruct H2 as (Hp & Hr2 & Hl2).
      assert (E2: (N.of_nat (length (b1 ++ concat c1)) <? len)%N = false) by (apply N.ltb_ge; lia).
      rewrite E2, <- Hp, <- Hr2. destruct (bytes_eqb (cks pl) (firstn 4 (skipn 20 h))); reflexivity.
    + assert (E2: (N.of_nat (length (b1 ++ concat c1)) <? len)%N = true) by (apply N.ltb_lt; lia).
      rewrite E2. reflexivity.
  - assert (E: (N.of_nat (length (buf ++ concat chunks)) <? 24)%N = true).
    { apply N.ltb_lt. change (N.to_nat 24) with 24 in H1. lia. }
    rewrite E. reflexivity.
Qed.

Corollary receive_message_chunking_independent : forall cs cs',
  concat cs = concat cs' ->
  let '(r, b, c) := receive_message [] cs in
  let '(r', b', c') := receive_message [] cs' in
  r = r' /\ b ++ concat c = b' ++ concat c'.
Proof.
  intros cs cs' E. pose proof (receive_message_stream [] cs) as H1.
  pose proof (receive_message_stream [] cs') as H2.
  destruct (receive_message [] cs) as [[r b] c]. destruct (receive_message [] cs') as [[r' b'] c'].
  cbn [app] in *. rewrite E in H1. rewrite H1 in H2. now injection H2.
Qed.

(* ---------- the header layout ---------- *)
Definition header (c12 : bytes) (len : N) (sum : bytes) : bytes :=
  p_magic P ++ c12 ++ le_bytes 4 len ++ sum.

Theorem frame_layout c p c12 : pad_command c = Some c12 ->
  frame c p = Some (header c12 (N.of_nat (length p)) (cks p) ++ p) /\
  length c12 = 12 /\ rstrip0 c12 = rstrip0 c.
Proof.
  intros Hp. unfold Bitcoin.frame, header. rewrite Hp.
  unfold pad_command in Hp. remember (12 - length c) as k eqn:Hk.
  destruct (length c <=? 12) eqn:E; [|discriminate]. destruct (ends_nul c); [discriminate|].
  apply Nat.leb_le in E. injection Hp as <-. split; [|split].
  - now rewrite <- !app_assoc.
  - rewrite app_length, repeat_length. lia.
  - apply rstrip0_app_zeros.
Qed.

Lemma parse_header c12 lenb sum rest :
  length c12 = 12 -> length lenb = 4 -> length sum = 4 ->
  let s := p_magic P ++ c12 ++ lenb ++ sum ++ rest in
  firstn 24 s = p_magic P ++ c12 ++ lenb ++ sum /\ skipn 24 s = rest.
Proof.
  intros H1 H2 H3 s. subst s.
  replace (p_magic P ++ c12 ++ lenb ++ sum ++ rest) with ((p_magic P ++ c12 ++ lenb ++ sum) ++ rest)
    by (now rewrite <- !app_assoc).
  split; [apply firstn_app_len|apply skipn_app_len]; rewrite !app_length; lia.
Qed.

(* what the parser does on a well-formed header followed by enough bytes *)
Lemma parse_one_payload c12 lenb sum payload rest :
  length c12 = 12 -> length lenb = 4 -> length sum = 4 ->
  le_value lenb = N.of_nat (length payload) ->
  oversized (rstrip0 c12) (le_value lenb) = false ->
  parse_one (p_magic P ++ c12 ++ lenb ++ sum ++ payload ++ rest) =
    if bytes_eqb (cks payload) sum then (Delivered (rstrip0 c12) payload, rest) else (BadChecksum, rest).
Proof.
  intros H1 H2 H3 Hl Ho. unfold Bitcoin.parse_one.
  destruct (parse_header c12 lenb sum (payload ++ rest) H1 H2 H3) as [Hf Hs].
  rewrite Hf, Hs.
  assert (E: (N.of_nat (length (p_magic P ++ c12 ++ lenb ++ sum ++ payload ++ rest)) <? 24)%N = false).
  { apply N.ltb_ge. rewrite !app_length. lia. }
  rewrite E.
  rewrite (firstn_app_len 4 (p_magic P)) by auto.
  rewrite (skipn_app_len 4 (p_magic P)) by auto.
  rewrite (firstn_app_len 12 c12) by auto.
  replace (p_magic P ++ c12 ++ lenb ++ sum) with ((p_magic P ++ c12) ++ lenb ++ sum) by (now rewrite <- app_assoc).
  rewrite (skipn_app_len 16 (p_magic P ++ c12)) by (rewrite app_length; lia).
  rewrite (firstn_app_len 4 lenb) by auto.
  replace ((p_magic P ++ c12) ++ lenb ++ sum) with ((p_magic P ++ c12 ++ lenb) ++ sum) by (now rewrite <- !app_assoc).
  rewrite (skipn_app_len 20 (p_magic P ++ c12 ++ lenb)) by (rewrite !app_length; lia).
  rewrite (firstn_all2 sum) by lia.
  rewrite bytes_eqb_refl'. cbn [negb].
  rewrite Ho.
  assert (E2: (N.of_nat (length (payload ++ rest)) <? le_value lenb)%N = false).
  { apply N.ltb_ge. rewrite Hl, app_length. lia. }
  rewrite E2, Hl, Nat2N.id.
  now rewrite firstn_app_exact, skipn_app_exact.
Qed.

(* ---------- round trip ---------- *)
Definition admissible (c p : bytes) : Prop :=
  length c <= 12 /\ no_trailing_nul c /\
  (N.of_nat (length p) < 4294967296)%N /\ oversized c (N.of_nat (length p)) = false.

Theorem roundtrip_stream c p rest f :
  admissible c p -> frame c p = Some f -> parse_one (f ++ rest) = (Delivered c p, rest).
Proof.
  intros (Hc & Hn & Hp & Ho) Hf.
  destruct (pad_command c) as [c12|] eqn:Epad.
  2:{ unfold Bitcoin.frame in Hf. rewrite Epad in Hf. discriminate. }
  destruct (frame_layout c p c12 Epad) as (Hfr & Hl & Hr). rewrite Hfr in Hf. injection Hf as <-.
  unfold header. rewrite <- !app_assoc.
  rewrite Hn in Hr.
  assert (Hv : le_value (le_bytes 4 (N.of_nat (length p))) = N.of_nat (length p))
    by (apply le_value_bytes; exact Hp).
  rewrite (parse_one_payload c12 (le_bytes 4 (N.of_nat (length p))) (cks p) p rest
             Hl (le_bytes_length _ _) (cks_len p) Hv).
  - rewrite bytes_eqb_refl', Hr. reflexivity.
  - rewrite Hr, Hv. exact Ho.
Qed.

(* what frame accepts is representable: at most 12 bytes, not ending with NUL *)
Lemma frame_some_command c p f : frame c p = Some f -> length c <= 12 /\ no_trailing_nul c.
Proof.
  unfold Bitcoin.frame, pad_command. destruct (length c <=? 12) eqn:E; [|discriminate].
  destruct (ends_nul c) eqn:En; [discriminate|]. intros _. split; [now apply Nat.leb_le|now apply ends_nul_false].
Qed.

(* the round trip for everything frame accepts *)
Theorem roundtrip_stream_full c p rest f :
  (N.of_nat (length p) < 4294967296)%N -> oversized c (N.of_nat (length p)) = false ->
  frame c p = Some f -> parse_one (f ++ rest) = (Delivered c p, rest).
Proof.
  intros Hp Ho Hf. destruct (frame_some_command c p f Hf) as [H1 H2].
  apply roundtrip_stream; auto. repeat split; auto.
Qed.

(* every chunking of the framed message (followed by anything) yields the message and
   leaves exactly the bytes that follow it *)
Theorem roundtrip_any_chunking c p rest f chunks :
  admissible c p -> frame c p = Some f -> concat chunks = f ++ rest ->
  let '(r, b, cs) := receive_message [] chunks in
  r = Delivered c p /\ b ++ concat cs = rest.
Proof.
  intros Ha Hf E. pose proof (receive_message_stream [] chunks) as H.
  destruct (receive_message [] chunks) as [[r b] cs]. cbn [app] in H.
  rewrite E, (roundtrip_stream c p rest f Ha Hf) in H. now injection H as <- <-.
Qed.

(* ---------- never delivers a corrupt payload ---------- *)
Theorem delivered_only_if_checksum s c p rest :
  parse_one s = (Delivered c p, rest) ->
  exists c12 lenb,
    s = p_magic P ++ c12 ++ lenb ++ cks p ++ p ++ rest /\
    length c12 = 12 /\ length lenb = 4 /\ rstrip0 c12 = c /\
    le_value lenb = N.of_nat (length p) /\ oversized c (N.of_nat (length p)) = false.
Proof.
  unfold Bitcoin.parse_one. destruct (N.of_nat (length s) <? 24)%N eqn:E; [discriminate|].
  apply N.ltb_ge in E.
  assert (Hsplit : s = firstn 24 s ++ skipn 24 s) by (now rewrite firstn_skipn).
  assert (Hh : length (firstn 24 s) = 24) by (rewrite firstn_length; lia).
  assert (Hs1 : length (skipn 24 s) = length s - 24) by (apply skipn_length).
  remember (firstn 24 s) as h eqn:Eh. remember (skipn 24 s) as s1 eqn:Es1. clear Eh Es1.
  destruct (negb (bytes_eqb (firstn 4 h) (p_magic P))) eqn:Em; [discriminate|].
  apply negb_false_iff, bytes_eqb_eq in Em.
  remember (le_value (firstn 4 (skipn 16 h))) as len eqn:Elen.
  destruct (oversized (rstrip0 (firstn 12 (skipn 4 h))) len) eqn:Eo; [discriminate|].
  destruct (N.of_nat (length s1) <? len)%N eqn:El; [discriminate|].
  apply N.ltb_ge in El.
  assert (Hpl : length (firstn (N.to_nat len) s1) = N.to_nat len) by (rewrite firstn_length; lia).
  assert (Hs1split : s1 = firstn (N.to_nat len) s1 ++ skipn (N.to_nat len) s1) by (now rewrite firstn_skipn).
  remember (firstn (N.to_nat len) s1) as pl eqn:Epl. remember (skipn (N.to_nat len) s1) as s2 eqn:Es2.
  clear Epl Es2.
  destruct (bytes_eqb (cks pl) (firstn 4 (skipn 20 h))) eqn:Ec; [|discriminate].
  apply bytes_eqb_eq in Ec. intros H.
  assert (c = rstrip0 (firstn 12 (skipn 4 h)) /\ p = pl /\ rest = s2) as (-> & -> & ->).
  { injection H as H1 H2 H3. auto. }
  exists (firstn 12 (skipn 4 h)), (firstn 4 (skipn 16 h)).
  assert (Hhs : h = firstn 4 h ++ firstn 12 (skipn 4 h) ++ firstn 4 (skipn 16 h) ++ firstn 4 (skipn 20 h)).
  { rewrite <- (firstn_skipn 4 h) at 1. f_equal.
    rewrite <- (firstn_skipn 12 (skipn 4 h)) at 1. f_equal.
    rewrite skipn_skipn. change (12 + 4) with 16.
    rewrite <- (firstn_skipn 4 (skipn 16 h)) at 1. f_equal.
    rewrite skipn_skipn. change (4 + 16) with 20.
    symmetry. apply firstn_all2. rewrite skipn_length. lia. }
  split; [|split; [|split; [|split; [|split]]]].
  - rewrite Hsplit, Hs1split, Hhs at 1. rewrite Em, Ec. now rewrite <- !app_assoc.
  - rewrite firstn_length, skipn_length. lia.
  - rewrite firstn_length, skipn_length. lia.
  - reflexivity.
  - rewrite <- Elen, Hpl. lia.
  - rewrite Hpl, N2Nat.id. exact Eo.
Qed.

(* ---------- a checksum error consumes exactly header + declared payload ---------- *)
Theorem badchecksum_keeps_sync s rest :
  parse_one s = (BadChecksum, rest) ->
  exists h p, s = h ++ p ++ rest /\ length h = 24 /\
    N.of_nat (length p) = le_value (firstn 4 (skipn 16 h)).
Proof.
  unfold Bitcoin.parse_one. destruct (N.of_nat (length s) <? 24)%N eqn:E; [discriminate|].
  apply N.ltb_ge in E.
  destruct (negb _); [discriminate|]. destruct (oversized _ _); [discriminate|].
  set (len := le_value (firstn 4 (skipn 16 (firstn 24 s)))).
  destruct (N.of_nat (length (skipn 24 s)) <? len)%N eqn:El; [discriminate|].
  apply N.ltb_ge in El. destruct (bytes_eqb _ _); [discriminate|].
  intros H. injection H as <-.
  exists (firstn 24 s), (firstn (N.to_nat len) (skipn 24 s)). repeat split.
  - now rewrite !firstn_skipn.
  - rewrite firstn_length. lia.
  - rewrite firstn_length. fold len. lia.
Qed.

Theorem magic_oversize_consume_header s r rest :
  parse_one s = (r, rest) -> r = BadMagic \/ r = Oversized -> rest = skipn 24 s.
Proof.
  unfold Bitcoin.parse_one. destruct (N.of_nat (length s) <? 24)%N.
  { intros H [->| ->]; discriminate. }
  destruct (negb _). { intros H _. now injection H. }
  destruct (oversized _ _). { intros H _. now injection H. }
  destruct (_ <? _)%N. { intros H [->| ->]; discriminate. }
  destruct (bytes_eqb _ _); intros H [->| ->]; discriminate.
Qed.

(* ---------- limits ---------- *)
Theorem limits cmd len :
  oversized cmd len = true <->
  (p_max_payload P < len)%N /\ (cmd <> p_block_cmd P \/ (p_max_block P < len)%N).
Proof.
  unfold Bitcoin.oversized. rewrite andb_true_iff, orb_true_iff, negb_true_iff, !N.ltb_lt.
  split; intros [H1 [H2|H2]]; split; auto.
  - left. intros ->. rewrite (proj2 (bytes_eqb_eq _ _) eq_refl) in H2. discriminate.
  - left. destruct (bytes_eqb cmd (p_block_cmd P)) eqn:E; auto. apply bytes_eqb_eq in E. contradiction.
Qed.

End Framer.

(* ---------- session policy ---------- *)
Definition is_err (r : result) : bool :=
  match r with BadMagic | Oversized | BadChecksum => true | _ => false end.
Definition is_fatal (r : result) : bool :=
  match r with BadMagic | Oversized => true | _ => false end.
Definition is_msg (r : result) : bool := match r with Delivered _ _ => true | _ => false end.

Lemma session_counts rs : forall s0,
  let s := fold_left session_step rs s0 in
  errors s = errors s0 + count_true is_err rs /\
  closes s = closes s0 + count_true is_fatal rs /\
  recv_count s = recv_count s0 + count_true is_msg rs.
Proof.
  induction rs as [|r rs IH]; intros s0; cbn [fold_left count_true].
  - cbn. lia.
  - specialize (IH (session_step s0 r)). cbn zeta in IH. destruct IH as (H1 & H2 & H3).
    rewrite H1, H2, H3. destruct r; cbn; lia.
Qed.

Theorem session_policy rs :
  errors (session rs) = count_true is_err rs /\
  closes (session rs) = count_true is_fatal rs /\
  recv_count (session rs) = count_true is_msg rs.
Proof. apply (session_counts rs {| errors := 0; closes := 0; recv_count := 0 |}). Qed.

(* ---------- sequences of messages, any chunking ---------- *)
Section Sequence.
Variable cks : bytes -> bytes.
Variable P : params.
Hypothesis cks_len : forall p, length (cks p) = 4.
Hypothesis magic_len : length (p_magic P) = 4.

Definition framed (m : bytes * bytes) (f : bytes) : Prop :=
  admissible P (fst m) (snd m) /\ frame cks P (fst m) (snd m) = Some f.

Lemma parse_one_short s : length s < 24 -> parse_one cks P s = (Starved, s).
Proof.
  intros H. unfold parse_one. assert (E : (N.of_nat (length s) <? 24)%N = true) by (apply N.ltb_lt; lia).
  now rewrite E.
Qed.

Theorem roundtrip_sequence : forall msgs fs,
  Forall2 framed msgs fs ->
  forall buf chunks fuel, buf ++ concat chunks = concat fs -> length msgs < fuel ->
  run cks P fuel buf chunks = map (fun m => Delivered (fst m) (snd m)) msgs.
Proof.
  induction 1 as [|m f msgs fs [Ha Hf] HF IH]; intros buf chunks fuel E Hfuel.
  - destruct fuel as [|fuel]; [lia|]. cbn [run map concat] in *.
    pose proof (receive_message_stream cks P magic_len buf chunks) as H.
    destruct (receive_message cks P buf chunks) as [[r b] c].
    rewrite E, parse_one_short in H by (cbn; lia). injection H as <- _. reflexivity.
  - destruct fuel as [|fuel]; [cbn in Hfuel; lia|]. cbn [run map concat] in *.
    pose proof (receive_message_stream cks P magic_len buf chunks) as H.
    destruct (receive_message cks P buf chunks) as [[r b] c].
    rewrite E, (roundtrip_stream cks P cks_len magic_len _ _ _ _ Ha Hf) in H.
    injection H as <- Hrest. f_equal. apply IH; auto. cbn in Hfuel. lia.
Qed.
End Sequence.
