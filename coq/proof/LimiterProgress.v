(* C13: every queued worker is served after a bounded number of exits.
   For a worker x that is queued (Pending), let
       mu(st, x) = excess(st) + the number of workers queued in front of x.
   - no step other than set_target makes mu larger while x stays queued (nobody gets in front of x, a lowered
     limit is the only thing that can add to the excess);
   - every exit of a holder makes mu smaller by exactly one while mu > 0, and hands x its permit when mu = 0.
   So x is handed a permit after at most excess + position + 1 exits of holders - whatever else happens in
   between (entries, cancellations, resumptions, raised limits). *)
From AV Require Import Base Limiter LimiterProofs LimiterOrder.
Local Open Scope Z_scope.
Local Arguments Z.add : simpl never.
Local Arguments Z.sub : simpl never.
Local Arguments Z.leb : simpl never.
Local Arguments Z.ltb : simpl never.
Local Arguments Z.to_nat : simpl never.

(* position of x in a list *)
Fixpoint idx (x : N) (l : list N) : nat :=
  match l with [] => O | y :: r => if N.eqb y x then O else S (idx x r) end.

Lemma idx_app_in x a b : In x a -> idx x (a ++ b) = idx x a.
Proof.
  induction a as [|y a IH]; cbn; [contradiction|]. destruct (N.eqb_spec y x) as [->|Hne]; [reflexivity|].
  intros [E|H]; [congruence|]. now rewrite IH.
Qed.

Lemma sublist_idx a l x : sublist a l -> NoDup l -> In x a -> (idx x a <= idx x l)%nat.
Proof.
  induction 1 as [l|y a l H IH|y a l H IH]; intros Hn Hx; [contradiction| |].
  - inversion Hn as [|? ? Hy Hn']; subst. cbn. destruct (N.eqb_spec y x) as [->|Hne].
    + exfalso. apply Hy. eapply sublist_In; eauto.
    + specialize (IH Hn' Hx). lia.
  - inversion Hn as [|? ? Hy Hn']; subst. cbn. destruct (N.eqb_spec y x) as [->|Hne]; [lia|].
    destruct Hx as [E|Hx]; [congruence|]. specialize (IH Hn' Hx). lia.
Qed.

Lemma skipn_sublist {k} (l : list N) : sublist (skipn k l) l.
Proof.
  revert l. induction k as [|k IH]; intros l; cbn; [apply sublist_refl|]. destruct l as [|y l]; [apply sl_nil|]. apply sl_skip, IH.
Qed.

Lemma pend_nodup l : NoDup (ids l) -> NoDup (pend l).
Proof.
  unfold pend, ids. induction l as [|[y s] l IH]; cbn; intros Hn; [constructor|]. inversion Hn as [|? ? Hy Hn']; subst.
  destruct (is_pending s); cbn; auto. constructor; auto. intros H. apply Hy.
  apply in_map_iff in H as (z & <- & Hz). apply filter_In in Hz as [Hz _]. now apply in_map.
Qed.

(* how one step changes the queue of pending workers: a new one at the end, or some removed *)
Lemma step_pend st l : InvN st -> ok_label l ->
  (exists w, l = Start w /\ pend (waiters (step st l)) = pend (waiters st) ++ [w]) \/
  sublist (pend (waiters (step st l))) (pend (waiters st)).
Proof.
  intros [(_ & _ & _ & _ & Ht & _) Oi] Hl. destruct l as [w|w|w|w|n]; cbn [step].
  - destruct (known st w); [right; apply sublist_refl|].
    destruct (target st <=? 0); [right; apply sublist_refl|].
    destruct (locked st) eqn:El.
    + left. exists w. split; [reflexivity|]. cbn [waiters upd_sem]. rewrite pend_app. reflexivity.
    + right. set (st0 := upd_sem st (value st - 1) (waiters st)).
      destruct (retarget_admits st0 w Ht) as (stm & k & (P & _) & _ & Hw & _). rewrite Hw, P.
      change (waiters st0) with (waiters st). apply skipn_sublist.
  - right. destruct (find_waiter w (waiters st)) as [[| |]|] eqn:Ef; try apply sublist_refl.
    + pose proof (remove_moves st w Woken Oi Ef eq_refl) as (P1 & _).
      set (st1 := upd_sem st (value st) (remove_waiter w (waiters st))) in *.
      destruct (memN w (cpend st)).
      * destruct (release_moves st1) as (k & P2 & _). cbn [waiters set_cpend]. rewrite P2, P1. apply skipn_sublist.
      * set (st2 := if 0 <? value st1 then wake_next st1 else st1).
        assert (H2 : exists k, pend (waiters st2) = skipn k (pend (waiters st1)) /\ target st2 = target st1).
        { subst st2. destruct (0 <? value st1).
          - destruct (wake_next_moves st1) as (k & P & _). exists k. split; [exact P|].
            destruct (wake_next_spec st1) as ((F1 & _) & _). now symmetry.
          - exists O. auto. }
        destruct H2 as (k2 & P2 & Ht2).
        assert (Ht2' : 1 <= target st2) by (rewrite Ht2; exact Ht).
        destruct (retarget_admits st2 w Ht2') as (stm & k3 & (P3 & _) & _ & Hw & _).
        rewrite Hw, P3, P2, P1. eapply sublist_trans; apply skipn_sublist.
    + pose proof (remove_moves st w WCancelled Oi Ef eq_refl) as (P1 & _). cbn [waiters upd_sem] in *. rewrite P1. apply sublist_refl.
  - right. destruct (memN w (holders st)); [|apply sublist_refl].
    set (st1 := set_holders st (removeN w (holders st)) (nhold st - 1) (admitted st)).
    destruct (target st1 <? semv st1); [apply sublist_refl|].
    destruct (release_moves st1) as (k & P & _). rewrite P. apply skipn_sublist.
  - right. destruct (find_waiter w (waiters st)) as [[| |]|] eqn:Ef; try apply sublist_refl.
    + cbn [waiters upd_sem]. apply pend_cancel.
    + destruct (memN w (cpend st)); apply sublist_refl.
  - right. apply sublist_refl.
Qed.

(* nobody gets in front of a queued worker, and only set_target can add to the excess *)
Theorem not_delayed st l x : InvN st -> ok_label l -> (forall n, l <> SetTarget n) ->
  In x (pend (waiters st)) -> In x (pend (waiters (step st l))) ->
  (idx x (pend (waiters (step st l))) <= idx x (pend (waiters st)))%nat /\ excess (step st l) <= excess st.
Proof.
  intros Hi Hl Hn Hx Hx'. split; [|now apply excess_no_raise].
  destruct (step_pend st l Hi Hl) as [(w & -> & E)|Hs].
  - rewrite E. rewrite idx_app_in; auto.
  - apply sublist_idx; auto. apply pend_nodup. apply Hi.
Qed.

Lemma pend_wake_first l l' : wake_first l = Some l' ->
  exists w, pend l = w :: pend l' /\ In w (wok l').
Proof.
  intros H. destruct (wake_first_spec _ _ H) as (a & w & b & -> & -> & Ha). exists w.
  rewrite !pend_app, (pend_none a Ha). cbn. split; [reflexivity|]. rewrite wok_app. apply in_or_app. right. cbn. now left.
Qed.

(* every exit of a holder brings a queued worker one step nearer to its permit *)
Theorem exit_progress st h x : InvN st -> memN h (holders st) = true -> In x (pend (waiters st)) ->
  let st' := step st (Exit h) in
  (0 < excess st -> excess st' = excess st - 1 /\ pend (waiters st') = pend (waiters st)) /\
  (excess st = 0 ->
     (idx x (pend (waiters st)) = O -> In x (wok (waiters st'))) /\
     (forall k, idx x (pend (waiters st)) = S k -> In x (pend (waiters st')) /\ idx x (pend (waiters st')) = k)).
Proof.
  intros Hi Hm Hx. cbv zeta. split.
  - intros He. split; [now apply excess_exit|]. unfold excess in He. assert (Hlt : target st < semv st) by lia.
    destruct (exit_retires st h Hm Hlt) as (_ & _ & E3 & _). now rewrite E3.
  - intros He. unfold excess in He. assert (Hle : semv st <= target st) by lia.
    destruct (wake_first (waiters st)) as [ws|] eqn:Ew.
    + destruct (exit_serves_head st h ws Hm Hle Ew) as (E1 & _). rewrite E1.
      destruct (pend_wake_first _ _ Ew) as (w & Ep & Hw). rewrite Ep in *. cbn in *.
      destruct (N.eqb_spec w x) as [->|Hne].
      * split; [intros _; exact Hw|intros k E; discriminate].
      * split; [intros E; discriminate|]. intros k E. injection E as E. destruct Hx as [E'|Hx]; [congruence|]. auto.
    + exfalso. apply wake_first_none in Ew. rewrite (pend_none _ Ew) in Hx. contradiction.
Qed.
