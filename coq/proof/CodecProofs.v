(* Proofs about the JSON-RPC codec model (model/Codec.v): payload-level round trips, format
   predicates, loose / auto-detect agreement. *)
From Coq Require Import ZifyN ZifyBool.
From AV Require Import Base Utf8 Json Gen_jsonrpc Codec.
Local Open Scope N_scope.

Definition is_args (a : json) : bool := is_list a || is_dict a.
(* ids the decoder [d] admits: 1.0 any JSON value, 2.0 / loose numbers, strings, null *)
Definition ok_id (d : proto) (i : json) : bool := match d with V1 => true | _ => valid_v2_id i end.
(* decoder [d] understands what encoder [e] writes: the same version, or the loose decoder *)
Definition compat (e d : proto) : bool := proto_eqb (out_proto e) d || proto_eqb d Loose.

Lemma allow_v2 : allow_batches V2 = true /\ allow_batches Loose = true /\ allow_batches V1 = false.
Proof. repeat split. Qed.

Ltac destr_args a := destruct a as [| | | | |?|?]; try discriminate.

(* ---------- requests and notifications ---------- *)
Theorem roundtrip_request e d meth args rid payload :
  compat e d = true -> is_args args = true -> ok_id d rid = true ->
  request_payload e meth args rid = Some payload ->
  payload_to_item d payload =
    MItem (if is_null rid then INotification meth args else IRequest meth args rid).
Proof.
  intros Hc Ha Hi Hp.
  destruct e, d; try discriminate; cbn in Hp.
  all: try (destr_args args; cbn in Hp; try discriminate; injection Hp as <-;
            destruct rid; cbn in *; try discriminate; reflexivity).
  all: destr_args args; injection Hp as <-.
  all: try (destruct l; destruct rid; cbn in *; try discriminate; reflexivity).
  all: destruct rid; cbn in *; try discriminate; reflexivity.
Qed.

(* ---------- results and errors ---------- *)
Theorem roundtrip_result e d v rid :
  compat e d = true -> ok_id d rid = true ->
  payload_to_item d (response_payload e v rid) = MItem (IResponse (RResult v) rid).
Proof.
  intros Hc Hi. destruct e, d; try discriminate; destruct rid; cbn in *; try discriminate; try reflexivity.
  all: destruct v; reflexivity.
Qed.

Theorem roundtrip_error e d code msg rid :
  compat e d = true -> ok_id d rid = true -> is_int code = true ->
  payload_to_item d (error_payload e code msg rid) = MItem (IResponse (RError code msg) rid).
Proof.
  intros Hc Hi Hcode.
  destruct e, d; try discriminate; destruct rid; cbn in *; try discriminate;
    destruct code; try discriminate; reflexivity.
Qed.

Lemma all_some_cons {A} (o : option A) l :
  all_some (o :: l) = match o, all_some l with Some x, Some r => Some (x :: r) | _, _ => None end.
Proof. reflexivity. Qed.

(* ---------- batches: each member of a request batch decodes to the member ---------- *)
Theorem roundtrip_batch e d ms ps :
  compat e d = true -> allow_batches d = true ->
  all_some (map (fun m => request_payload e (fst (fst m)) (snd (fst m)) (snd m)) ms) = Some ps -> ps <> [] ->
  payload_to_item d (JArr ps) = MItem (IBatch ps) /\
  (Forall (fun m => is_args (snd (fst m)) = true /\ ok_id d (snd m) = true) ms ->
   Forall2 (fun m p => process_request d p =
                       MItem (if is_null (snd m) then INotification (fst (fst m)) (snd (fst m))
                              else IRequest (fst (fst m)) (snd (fst m)) (snd m))) ms ps).
Proof.
  intros Hc Hb Hall Hne. split.
  - destruct ps; [contradiction|]. cbn. rewrite Hb. reflexivity.
  - clear Hne. revert ps Hall. induction ms as [|m ms IH]; intros ps Hall HF.
    + cbn in Hall. injection Hall as <-. constructor.
    + cbn [map] in Hall. rewrite all_some_cons in Hall.
      destruct (request_payload e (fst (fst m)) (snd (fst m)) (snd m)) as [p|] eqn:Ep; [|discriminate].
      destruct (all_some _) as [r|] eqn:Er; [|discriminate]. injection Hall as <-.
      inversion HF as [|? ? [Ha Hi] HF']; subst. constructor; [|apply IH; auto].
      pose proof (roundtrip_request e d _ _ _ p Hc Ha Hi Ep) as H.
      (* a request payload is a dict with a "method" member: payload_to_item = process_request *)
      assert (Hm : payload_to_item d p = process_request d p).
      { clear - Ep. destruct e; cbn in Ep;
          [destruct (is_dict (snd (fst m))); [discriminate|]; injection Ep as <-; reflexivity | |].
        all: injection Ep as <-; destruct (is_null (snd m)); destruct (snd (fst m)) as [| | | | |[|? ?]|?]; reflexivity. }
      rewrite <- Hm. exact H.
Qed.

(* ---------- wire formats ---------- *)
Definition v2_format_response (p : json) : Prop :=
  get k_jsonrpc p = Some (JStr s_2_0) /\ xorb (has k_result p) (has k_error p) = true.
Definition v1_format_response (p : json) : Prop :=
  exists r e, get k_result p = Some r /\ get k_error p = Some e /\ (is_null r || is_null e = true).

Theorem v2_formats e meth args rid v code msg :
  out_proto e = V2 ->
  (forall p, request_payload e meth args rid = Some p -> get k_jsonrpc p = Some (JStr s_2_0)) /\
  v2_format_response (response_payload e v rid) /\ v2_format_response (error_payload e code msg rid).
Proof.
  intros He. destruct e; try discriminate; (split; [|split; split; reflexivity]).
  all: intros p Hp; cbn in Hp; injection Hp as <-; destruct (is_null rid); destruct args as [| | | | |[|? ?]|?]; reflexivity.
Qed.

Theorem v1_formats meth args rid v code msg :
  v1_format_response (response_payload V1 v rid) /\ v1_format_response (error_payload V1 code msg rid) /\
  (forall p, is_args args = true -> request_payload V1 meth args rid = Some p -> is_list args = true /\ get k_params p = Some args) /\
  (forall ms, batch_message V1 ms = None).
Proof.
  split; [|split; [|split]].
  - exists v, JNull. repeat split. cbn. apply orb_true_r.
  - eexists JNull, _. repeat split.
  - intros p Ha Hp. cbn in Hp. destruct args; try discriminate; injection Hp as <-; split; reflexivity.
  - reflexivity.
Qed.

(* ---------- auto-detection settles on a decoder that understands the encoder ---------- *)
Theorem autodetect_request e meth args rid p :
  request_payload e meth args rid = Some p -> compat e (detect_protocol p) = true.
Proof.
  intros Hp. destruct e; cbn in Hp.
  - destruct (is_dict args); [discriminate|]. injection Hp as <-. reflexivity.
  - injection Hp as <-. destruct (is_null rid); destruct args as [| | | | |[|? ?]|?]; reflexivity.
  - injection Hp as <-. destruct (is_null rid); destruct args as [| | | | |[|? ?]|?]; reflexivity.
Qed.
Theorem autodetect_response e v code msg rid :
  compat e (detect_protocol (response_payload e v rid)) = true /\
  compat e (detect_protocol (error_payload e code msg rid)) = true.
Proof. destruct e; split; reflexivity. Qed.

Lemma protocol_for_request_payload e meth args rid p :
  request_payload e meth args rid = Some p -> out_proto e = V2 -> protocol_for_payload p = V2.
Proof.
  intros Hp He. destruct e; try discriminate; cbn in Hp; injection Hp as <-;
    destruct (is_null rid); destruct args as [| | | | |[|? ?]|?]; reflexivity.
Qed.

Theorem autodetect_batch e ms ps :
  out_proto e = V2 ->
  all_some (map (fun m => request_payload e (fst (fst m)) (snd (fst m)) (snd m)) ms) = Some ps -> ps <> [] ->
  detect_protocol (JArr ps) = V2.
Proof.
  intros He Hall Hne.
  assert (HF : Forall (fun p => protocol_for_payload p = V2) ps).
  { clear Hne. revert ps Hall. induction ms as [|m ms IH]; intros ps Hall; [cbn in Hall|].
    - injection Hall as <-. constructor.
    - cbn [map] in Hall. rewrite all_some_cons in Hall.
      destruct (request_payload e _ _ _) as [p|] eqn:Ep; [|discriminate].
      destruct (all_some _) as [r|]; [|discriminate]. injection Hall as <-.
      constructor; [eapply protocol_for_request_payload; eauto | apply IH; reflexivity]. }
  destruct ps as [|p ps]; [contradiction|]. inversion HF as [|? ? H1 H2]; subst. cbn [detect_protocol map].
  rewrite H1.
  assert (E : forallb (proto_eqb V2) (map protocol_for_payload ps) = true).
  { apply forallb_forall. intros x Hx. apply in_map_iff in Hx as (y & <- & Hy).
    rewrite Forall_forall in H2. now rewrite (H2 y Hy). }
  now rewrite E.
Qed.

(* ---------- tier 2: every encoded message is one newline-free line of ASCII ---------- *)
Definition printable (c : N) : bool := (32 <=? c) && (c <=? 126).
Definition wf_text (s : text) : bool := forallb (fun c => c <? 1114112) s.
Fixpoint wf_json (v : json) : bool :=
  match v with
  | JFloat t => forallb printable t
  | JStr s => wf_text s
  | JArr l => (fix go (l : list json) := match l with [] => true | x :: r => wf_json x && go r end) l
  | JObj l => (fix go (l : list (text * json)) :=
                 match l with [] => true | (k, x) :: r => wf_text k && wf_json x && go r end) l
  | _ => true
  end.

Ltac pr := unfold printable; apply andb_true_iff; split; [apply N.leb_le|apply N.leb_le].

Lemma hexdigit_printable n : n < 16 -> printable (hexdigit n) = true.
Proof.
  intros H. unfold hexdigit. destruct (n <? 10) eqn:E; [apply N.ltb_lt in E|apply N.ltb_ge in E]; pr; lia.
Qed.

Lemma u_escape_printable c : c < 65536 -> forallb printable (u_escape c) = true.
Proof.
  intros H. unfold u_escape. cbn [forallb].
  assert (c / 4096 < 16) by (apply N.div_lt_upper_bound; lia).
  assert ((c / 256) mod 16 < 16) by (apply N.mod_lt; lia).
  assert ((c / 16) mod 16 < 16) by (apply N.mod_lt; lia).
  assert (c mod 16 < 16) by (apply N.mod_lt; lia).
  rewrite !hexdigit_printable by assumption. reflexivity.
Qed.

Lemma esc_char_printable c : c < 1114112 -> forallb printable (esc_char c) = true.
Proof.
  intros H. unfold esc_char.
  repeat (match goal with |- context [if ?b then _ else _] => destruct b eqn:? end; try reflexivity).
  - apply andb_true_iff in Heqb6 as [A B]. cbn. unfold printable. now rewrite A, B.
  - apply N.ltb_lt in Heqb7. now apply u_escape_printable.
  - apply N.ltb_ge in Heqb7. rewrite forallb_app. apply andb_true_iff. split; apply u_escape_printable.
    + assert ((c - 65536) / 1024 < 1024) by (apply N.div_lt_upper_bound; lia). lia.
    + assert ((c - 65536) mod 1024 < 1024) by (apply N.mod_lt; lia). lia.
Qed.

Lemma print_string_printable s : wf_text s = true -> forallb printable (print_string s) = true.
Proof.
  intros H. unfold print_string. cbn [forallb]. rewrite forallb_app. cbn.
  assert (forallb printable (flat_map esc_char s) = true).
  { induction s as [|c s IH]; cbn; auto. cbn in H. apply andb_true_iff in H as [H1 H2].
    rewrite forallb_app, IH by auto. rewrite esc_char_printable; auto. now apply N.ltb_lt. }
  now rewrite H0.
Qed.

Lemma pos_digits_printable : forall fuel p acc,
  forallb printable acc = true -> forallb printable (pos_digits fuel p acc) = true.
Proof.
  induction fuel as [|f IH]; intros p acc H; cbn [pos_digits]; auto.
  destruct (p <? 10) eqn:E.
  - apply N.ltb_lt in E. cbn [forallb]. rewrite H. assert (printable (48 + p) = true) by (pr; lia). now rewrite H0.
  - apply IH. cbn [forallb]. rewrite H. assert (p mod 10 < 10) by (apply N.mod_lt; lia).
    assert (printable (48 + p mod 10) = true) by (pr; lia). now rewrite H1.
Qed.

Lemma print_int_printable z : forallb printable (print_int z) = true.
Proof.
  destruct z as [|p|p]; cbn [print_int].
  - reflexivity.
  - unfold print_nat. apply pos_digits_printable. reflexivity.
  - cbn [forallb]. apply andb_true_iff. split; [reflexivity|].
    unfold print_nat. apply pos_digits_printable. reflexivity.
Qed.

Lemma print_float_printable t : forallb printable t = true -> forallb printable (print_float t) = true.
Proof.
  intros H. unfold print_float.
  repeat (match goal with |- context [if ?b then _ else _] => destruct b end; try reflexivity). exact H.
Qed.

Lemma join_with_printable l :
  Forall (fun x => forallb printable x = true) l -> forallb printable (join_with 44 l) = true.
Proof.
  induction 1 as [|x l Hx Hl IH]; auto. cbn. destruct l as [|y l']; auto.
  rewrite forallb_app, Hx. cbn. exact IH.
Qed.

Theorem print_ascii : forall v, wf_json v = true -> forallb printable (print v) = true.
Proof.
  fix IH 1. intros v. destruct v as [|b|z|t|s|l|l]; intros H; cbn [print].
  - reflexivity.
  - destruct b; reflexivity.
  - apply print_int_printable.
  - apply print_float_printable. exact H.
  - apply print_string_printable. exact H.
  - cbn [forallb]. apply andb_true_iff; split; [reflexivity|]. rewrite forallb_app.
    apply andb_true_iff; split; [|reflexivity]. apply join_with_printable.
    cbn [wf_json] in H. induction l as [|x l IHl]; cbn [map]; constructor.
    + apply andb_true_iff in H as [H1 _]. apply IH. exact H1.
    + apply andb_true_iff in H as [_ H2]. apply IHl. exact H2.
  - cbn [forallb]. apply andb_true_iff; split; [reflexivity|]. rewrite forallb_app.
    apply andb_true_iff; split; [|reflexivity]. apply join_with_printable.
    cbn [wf_json] in H. induction l as [|[k x] l IHl]; cbn [map fst snd]; constructor.
    + apply andb_true_iff in H as [H1 _]. apply andb_true_iff in H1 as [Hk Hx].
      rewrite forallb_app. rewrite print_string_printable by exact Hk. cbn [forallb andb]. apply andb_true_iff. split; [reflexivity|]. apply IH. exact Hx.
    + apply andb_true_iff in H as [_ H2]. apply IHl. exact H2.
Qed.

(* printable ASCII contains no newline: the assumption NewlineFramer relies on *)
Corollary print_no_newline v : wf_json v = true -> ~ In 10 (print v).
Proof.
  intros H Hin. pose proof (print_ascii v H) as Hp. rewrite forallb_forall in Hp.
  specialize (Hp 10 Hin). discriminate.
Qed.
