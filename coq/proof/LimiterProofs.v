(* Proofs about the limiter LTS (model/Limiter.v). *)
From AV Require Import Base Limiter.
Local Open Scope Z_scope.
Local Arguments Z.add : simpl never.
Local Arguments Z.sub : simpl never.
Local Arguments Z.of_nat : simpl never.
Local Arguments Z.max : simpl never.
Local Arguments Z.leb : simpl never.
Local Arguments Z.ltb : simpl never.
Local Arguments Z.to_nat : simpl never.

Definition is_woken (s : wst) : bool := match s with Woken => true | _ => false end.
Definition is_pending (s : wst) : bool := match s with Pending => true | _ => false end.
Definition wokenZ (l : list (N * wst)) : Z := Z.of_nat (count_true (fun x => is_woken (snd x)) l).

Lemma wokenZ_nonneg l : 0 <= wokenZ l.
Proof. unfold wokenZ. lia. Qed.
Lemma wokenZ_cons x l : wokenZ (x :: l) = (if is_woken (snd x) then 1 else 0) + wokenZ l.
Proof. unfold wokenZ. cbn [count_true]. destruct (is_woken (snd x)); lia. Qed.
Lemma wokenZ_app a b : wokenZ (a ++ b) = wokenZ a + wokenZ b.
Proof. induction a as [|x a IH]; [reflexivity|]. cbn [app]. rewrite !wokenZ_cons, IH. lia. Qed.

(* ---------- FIFO hand-over ---------- *)
Lemma wake_first_spec : forall l l', wake_first l = Some l' ->
  exists a w b, l = a ++ (w, Pending) :: b /\ l' = a ++ (w, Woken) :: b /\
                forallb (fun x => negb (is_pending (snd x))) a = true.
Proof.
  induction l as [|[x s] l IH]; intros l' H; [discriminate|]. cbn [wake_first] in H.
  destruct s.
  - injection H as <-. exists [], x, l. auto.
  - destruct (wake_first l) as [r'|] eqn:E; [|discriminate]. injection H as <-.
    destruct (IH r' eq_refl) as (a & w & b & -> & -> & Ha). exists ((x, Woken) :: a), w, b. cbn. auto.
  - destruct (wake_first l) as [r'|] eqn:E; [|discriminate]. injection H as <-.
    destruct (IH r' eq_refl) as (a & w & b & -> & -> & Ha). exists ((x, WCancelled) :: a), w, b. cbn. auto.
Qed.

Lemma wake_first_woken l l' : wake_first l = Some l' -> wokenZ l' = wokenZ l + 1.
Proof.
  intros H. destruct (wake_first_spec l l' H) as (a & w & b & -> & -> & _).
  rewrite !wokenZ_app, !wokenZ_cons. cbn [snd is_woken]. lia.
Qed.

Lemma wake_first_none l : wake_first l = None -> forallb (fun x => negb (is_pending (snd x))) l = true.
Proof.
  induction l as [|[x s] l IH]; auto. cbn [wake_first]. destruct s; [discriminate| |];
    destruct (wake_first l); try discriminate; intros _; cbn; auto.
Qed.

(* ---------- effect of the semaphore operations ---------- *)
(* everything but (value, waiters) is untouched *)
Definition frame (a b : lstate) : Prop :=
  target a = target b /\ semv a = semv b /\ holders a = holders b /\ nhold a = nhold b /\
  cpend a = cpend b /\ refused a = refused b /\ admitted a = admitted b /\ maxt a = maxt b.

Lemma frame_refl a : frame a a.
Proof. unfold frame. repeat split. Qed.
Lemma frame_trans a b c : frame a b -> frame b c -> frame a c.
Proof. unfold frame. intuition congruence. Qed.

Definition tot (st : lstate) : Z := value st + wokenZ (waiters st).

Lemma wake_next_spec st :
  frame st (wake_next st) /\ tot (wake_next st) = tot st /\
  value st - 1 <= value (wake_next st) <= value st.
Proof.
  unfold wake_next, tot. destruct (wake_first (waiters st)) as [ws|] eqn:E.
  - cbn. rewrite (wake_first_woken _ _ E). repeat split; lia.
  - repeat split; lia.
Qed.

Lemma release_spec st :
  frame st (release st) /\ tot (release st) = tot st + 1 /\
  value st <= value (release st) <= value st + 1.
Proof.
  unfold release. set (st1 := upd_sem st (value st + 1) (waiters st)).
  destruct (wake_next_spec st1) as (F & T & V).
  assert (F1 : frame st st1) by (unfold frame; cbn; repeat split).
  split; [eapply frame_trans; eauto|]. unfold tot in *. cbn in *. lia.
Qed.

Lemma release_n_spec : forall n st,
  let st' := release_n n st in
  target st' = target st /\ semv st' = semv st + Z.of_nat n /\ holders st' = holders st /\
  nhold st' = nhold st /\ cpend st' = cpend st /\ refused st' = refused st /\
  admitted st' = admitted st /\ maxt st' = maxt st /\
  tot st' = tot st + Z.of_nat n /\ value st <= value st'.
Proof.
  induction n as [|n IH]; intros st; cbn [release_n].
  - cbn. repeat split; lia.
  - set (st1 := set_semv st (semv st + 1)).
    destruct (release_spec st1) as (F & T & V). destruct F as (F1 & F2 & F3 & F4 & F5 & F6 & F7 & F8).
    specialize (IH (release st1)). cbn zeta in IH.
    destruct IH as (I1 & I2 & I3 & I4 & I5 & I6 & I7 & I8 & I9 & I10).
    cbn in *. unfold tot in *. cbn in *.
    repeat split; try congruence; try lia.
Qed.

Lemma retarget_spec st w : 1 <= target st ->
  let st' := retarget st w in
  target st' = target st /\ semv st' = Z.max (semv st) (target st) /\
  holders st' = w :: holders st /\ nhold st' = nhold st + 1 /\ maxt st' = maxt st /\
  tot st' = tot st + (Z.max (semv st) (target st) - semv st) /\ value st <= value st' /\
  cpend st' = cpend st /\ refused st' = refused st.
Proof.
  intros Ht. unfold retarget. destruct (target st <=? 0) eqn:E; [apply Z.leb_le in E; lia|].
  destruct (release_n_spec (Z.to_nat (target st - semv st)) st)
    as (I1 & I2 & I3 & I4 & I5 & I6 & I7 & I8 & I9 & I10).
  cbn. unfold tot in *. cbn. rewrite I1, I2, I3, I4, I5, I6, I8.
  repeat split; try lia.
Qed.

(* ---------- the invariant ---------- *)
Definition Inv (st : lstate) : Prop :=
  nhold st + tot st = semv st /\ 0 <= value st /\ semv st <= maxt st /\ target st <= maxt st /\
  1 <= target st /\ Z.of_nat (length (holders st)) <= nhold st.

Definition ok_label (l : label) : Prop := match l with SetTarget n => 1 <= n | _ => True end.

Lemma removeN_length x l : memN x l = true -> (length (removeN x l) < length l)%nat.
Proof.
  unfold memN, removeN. induction l as [|y l IH]; cbn; [discriminate|].
  destruct (N.eqb x y) eqn:E; cbn.
  - intros _. pose proof (filter_length_le (fun y0 => negb (N.eqb x y0)) l). lia.
  - intros H. specialize (IH H). lia.
Qed.

(* exact version, needed for conservation: ids in the queue are distinct *)
Definition ids (l : list (N * wst)) : list N := map fst l.

Lemma remove_waiter_woken w l : NoDup (ids l) ->
  find_waiter w l = Some Woken -> wokenZ (remove_waiter w l) = wokenZ l - 1.
Proof.
  induction l as [|[x s] l IH]; [discriminate|]. cbn [find_waiter remove_waiter filter fst ids map].
  intros Hn. inversion Hn as [|? ? Hx Hn']; subst.
  destruct (N.eqb x w) eqn:E; cbn [negb].
  - intros H. injection H as ->. rewrite wokenZ_cons. cbn. apply N.eqb_eq in E; subst x.
    assert (filter (fun x0 => negb (N.eqb (fst x0) w)) l = l).
    { clear - Hx. induction l as [|y l IH]; cbn; auto. cbn in Hx.
      destruct (N.eqb (fst y) w) eqn:E; cbn.
      - apply N.eqb_eq in E. exfalso. apply Hx. left. auto.
      - f_equal. apply IH. intros H. apply Hx. right. auto. }
    rewrite H. lia.
  - intros H. rewrite !wokenZ_cons. unfold remove_waiter, ids in IH. rewrite IH; auto. lia.
Qed.

Lemma remove_waiter_other w l s : NoDup (ids l) ->
  find_waiter w l = Some s -> is_woken s = false -> wokenZ (remove_waiter w l) = wokenZ l.
Proof.
  induction l as [|[x s0] l IH]; [discriminate|]. cbn [find_waiter remove_waiter filter fst ids map].
  intros Hn. inversion Hn as [|? ? Hx Hn']; subst.
  destruct (N.eqb x w) eqn:E; cbn [negb].
  - intros H Hs. injection H as ->. rewrite wokenZ_cons. cbn [snd]. rewrite Hs. apply N.eqb_eq in E; subst x.
    assert (filter (fun x0 => negb (N.eqb (fst x0) w)) l = l).
    { clear - Hx. induction l as [|y l IH]; cbn; auto. cbn in Hx.
      destruct (N.eqb (fst y) w) eqn:E; cbn.
      - apply N.eqb_eq in E. exfalso. apply Hx. left. auto.
      - f_equal. apply IH. intros H. apply Hx. right. auto. }
    rewrite H. lia.
  - intros H Hs. rewrite !wokenZ_cons. unfold remove_waiter, ids in IH. rewrite (IH Hn' H Hs). lia.
Qed.

Lemma set_waiter_cancel w l :
  find_waiter w l = Some Pending -> wokenZ (set_waiter w WCancelled l) = wokenZ l /\
  ids (set_waiter w WCancelled l) = ids l.
Proof.
  induction l as [|[x s] l IH]; [discriminate|]. cbn [find_waiter set_waiter].
  destruct (N.eqb x w).
  - intros H. injection H as ->. rewrite !wokenZ_cons. cbn. auto.
  - intros H. destruct (IH H) as [I1 I2]. rewrite !wokenZ_cons. cbn. rewrite I1. unfold ids in *. cbn. now rewrite I2.
Qed.

Lemma wake_first_ids l l' : wake_first l = Some l' -> ids l' = ids l.
Proof.
  intros H. destruct (wake_first_spec l l' H) as (a & w & b & -> & -> & _).
  unfold ids. now rewrite !map_app.
Qed.
Lemma wake_next_ids st : ids (waiters (wake_next st)) = ids (waiters st).
Proof.
  unfold wake_next. destruct (wake_first (waiters st)) eqn:E; auto. cbn. now apply wake_first_ids.
Qed.
Lemma release_ids st : ids (waiters (release st)) = ids (waiters st).
Proof. unfold release. now rewrite wake_next_ids. Qed.
Lemma release_n_ids n : forall st, ids (waiters (release_n n st)) = ids (waiters st).
Proof. induction n as [|n IH]; intros st; cbn; auto. now rewrite IH, release_ids. Qed.
Lemma retarget_ids st w : ids (waiters (retarget st w)) = ids (waiters st).
Proof.
  unfold retarget. destruct (target st <=? 0); cbn; auto. apply release_n_ids.
Qed.
Lemma remove_waiter_ids_nodup w l : NoDup (ids l) -> NoDup (ids (remove_waiter w l)).
Proof.
  unfold ids, remove_waiter. induction l as [|x l IH]; cbn; auto. intros H. inversion H; subst.
  destruct (negb _); cbn; auto. constructor; auto. intros Hin. apply H2.
  apply in_map_iff in Hin as (y & Hy & Hf). apply filter_In in Hf as [Hf _]. apply in_map_iff. eauto.
Qed.

Definition InvN (st : lstate) : Prop := Inv st /\ NoDup (ids (waiters st)).

Lemma known_false_ids st w : known st w = false -> ~ In w (ids (waiters st)).
Proof.
  unfold known. intros H Hin. apply orb_false_iff in H as [_ H].
  assert (existsb (fun x => N.eqb (fst x) w) (waiters st) = true).
  { unfold ids in Hin. apply in_map_iff in Hin as (x & <- & Hx). apply existsb_exists. exists x.
    split; auto. apply N.eqb_refl. }
  congruence.
Qed.

Lemma step_inv st l : InvN st -> ok_label l -> InvN (step st l).
Proof.
  intros [(Hc & Hv & Hs & Ht & H1 & Hh) Hn] Hl. destruct l as [w|w|w|w|n]; cbn [step].
  - (* Start *)
    destruct (known st w) eqn:Ek; [split; [repeat split|]; auto|].
    assert (Et : (target st <=? 0) = false) by (apply Z.leb_gt; lia). rewrite Et.
    destruct (locked st) eqn:El.
    + split; [unfold Inv, tot in *; cbn; rewrite wokenZ_app, wokenZ_cons; cbn; change (wokenZ []) with 0; repeat split; auto; lia|].
      cbn. unfold ids. rewrite map_app. cbn. apply NoDup_app_snoc; auto. now apply known_false_ids.
    + unfold locked in El. apply orb_false_iff in El as [El _]. apply Z.eqb_neq in El.
      set (st0 := upd_sem st (value st - 1) (waiters st)).
      assert (H1' : 1 <= target st0) by exact H1.
      destruct (retarget_spec st0 w H1') as (R1 & R2 & R3 & R4 & R5 & R6 & R7 & R8 & R9).
      split; [|rewrite retarget_ids; exact Hn].
      unfold Inv. rewrite R1, R2, R3, R4, R5, R6. unfold tot in *. cbn in *.
      repeat split; try lia; try (cbn [length]; rewrite Nat2Z.inj_succ; lia).
  - (* Wake *)
    destruct (find_waiter w (waiters st)) as [[| |]|] eqn:Ef; try (split; [repeat split|]; auto; fail).
    + (* Woken *)
      pose proof (remove_waiter_woken w (waiters st) Hn Ef) as Hw.
      set (st1 := upd_sem st (value st) (remove_waiter w (waiters st))).
      assert (Hn1 : NoDup (ids (waiters st1))) by (cbn; now apply remove_waiter_ids_nodup).
      destruct (memN w (cpend st)).
      * destruct (release_spec st1) as ((F1 & F2 & F3 & F4 & F5 & F6 & F7 & F8) & T & V).
        split; [|cbn; rewrite release_ids; exact Hn1].
        unfold Inv, tot in *. cbn in *. rewrite <- F1, <- F2, <- F3, <- F4, <- F8.
        repeat split; try lia.
      * set (st2 := if 0 <? value st1 then wake_next st1 else st1).
        assert (Hst2 : frame st1 st2 /\ tot st2 = tot st1 /\ 0 <= value st2 /\
                       ids (waiters st2) = ids (waiters st1)).
        { subst st2. destruct (0 <? value st1) eqn:E0.
          - apply Z.ltb_lt in E0. destruct (wake_next_spec st1) as (F & T & V).
            split; [exact F|]. split; [exact T|]. split; [cbn in *; lia|]. apply wake_next_ids.
          - split; [apply frame_refl|]. split; [reflexivity|]. split; [exact Hv|reflexivity]. }
        destruct Hst2 as ((F1 & F2 & F3 & F4 & F5 & F6 & F7 & F8) & T & V & I).
        assert (H1' : 1 <= target st2) by (rewrite <- F1; exact H1).
        destruct (retarget_spec st2 w H1') as (R1 & R2 & R3 & R4 & R5 & R6 & R7 & R8 & R9).
        split; [|rewrite retarget_ids, I; exact Hn1].
        unfold Inv. rewrite R1, R2, R3, R4, R5, R6, <- F1, <- F2, <- F3, <- F4, <- F8.
        unfold tot in *. cbn in *. repeat split; try lia; try (cbn [length]; rewrite Nat2Z.inj_succ; lia).
    + (* WCancelled *)
      pose proof (remove_waiter_other w (waiters st) WCancelled Hn Ef eq_refl) as Hw.
      split; [unfold Inv, tot in *; cbn; repeat split; auto; lia|].
      cbn. now apply remove_waiter_ids_nodup.
  - (* Exit *)
    destruct (memN w (holders st)) eqn:Em; [|split; [repeat split|]; auto].
    pose proof (removeN_length w (holders st) Em) as Hlen.
    set (st1 := set_holders st (removeN w (holders st)) (nhold st - 1) (admitted st)).
    destruct (target st1 <? semv st1) eqn:E.
    + apply Z.ltb_lt in E. cbn in E. split; [|exact Hn].
      unfold Inv, tot in *. cbn. repeat split; try lia.
    + destruct (release_spec st1) as ((F1 & F2 & F3 & F4 & F5 & F6 & F7 & F8) & T & V).
      split; [|rewrite release_ids; exact Hn].
      unfold Inv, tot in *. cbn in *. rewrite <- F1, <- F2, <- F3, <- F4, <- F8.
      repeat split; try lia.
  - (* Cancel *)
    destruct (find_waiter w (waiters st)) as [[| |]|] eqn:Ef; try (split; [repeat split|]; auto; fail).
    + destruct (set_waiter_cancel w (waiters st) Ef) as [S1 S2].
      split; [unfold Inv, tot in *; cbn; rewrite S1; repeat split; auto|]. cbn [waiters upd_sem]. now rewrite S2.
    + destruct (memN w (cpend st)); split; try (repeat split; auto; fail); auto.
  - (* SetTarget *)
    cbn in Hl. split; [|exact Hn]. unfold Inv, tot in *. cbn. repeat split; try lia.
Qed.

Lemma init_inv t : 1 <= t -> InvN (init t).
Proof.
  intros H. split; [|constructor]. unfold Inv, tot, wokenZ. cbn. repeat split; lia.
Qed.

Lemma run_inv_from : forall ls st, InvN st -> Forall ok_label ls -> InvN (fold_left step ls st).
Proof.
  induction ls as [|l ls IH]; intros st H F; cbn; auto. inversion F; subst.
  apply IH; auto. now apply step_inv.
Qed.

Theorem run_inv t ls : 1 <= t -> Forall ok_label ls -> InvN (run t ls).
Proof. intros. apply run_inv_from; auto. now apply init_inv. Qed.

(* ---------- consequences ---------- *)
Lemma inv_holders_le_semv st : InvN st -> Z.of_nat (length (holders st)) <= semv st.
Proof.
  intros [(Hc & Hv & Hs & Ht & H1 & Hh) _]. unfold tot in Hc.
  pose proof (wokenZ_nonneg (waiters st)). lia.
Qed.

Definition excess (st : lstate) : Z := Z.max 0 (semv st - target st).

Lemma holders_le_target_plus_excess st : InvN st ->
  Z.of_nat (length (holders st)) <= target st + excess st.
Proof. intros H. pose proof (inv_holders_le_semv st H). unfold excess. lia. Qed.

Lemma exit_retires st w : memN w (holders st) = true -> target st < semv st ->
  let st' := step st (Exit w) in
  semv st' = semv st - 1 /\ value st' = value st /\ waiters st' = waiters st /\ target st' = target st.
Proof.
  intros Hm Hlt. cbn [step]. rewrite Hm. cbn.
  assert (E : (target st <? semv st) = true) by (apply Z.ltb_lt; lia). rewrite E. cbn. auto.
Qed.

Lemma semv_no_raise st l : InvN st -> (forall n, l <> SetTarget n) ->
  semv (step st l) <= Z.max (semv st) (target st) /\ target (step st l) = target st.
Proof.
  intros [(Hc & Hv & Hs & Ht & H1 & Hh) Hn] Hl. destruct l as [w|w|w|w|n]; cbn [step].
  - destruct (known st w); [lia|]. destruct (target st <=? 0); [cbn; lia|]. destruct (locked st); [cbn; lia|].
    set (st0 := upd_sem st (value st - 1) (waiters st)).
    destruct (retarget_spec st0 w H1) as (R1 & R2 & _). rewrite R1, R2. cbn. lia.
  - destruct (find_waiter w (waiters st)) as [[| |]|]; try (cbn; lia).
    set (st1 := upd_sem st (value st) (remove_waiter w (waiters st))).
    destruct (memN w (cpend st)).
    + destruct (release_spec st1) as ((F1 & F2 & _) & _). cbn in *. rewrite <- F1, <- F2. lia.
    + set (st2 := if 0 <? value st1 then wake_next st1 else st1).
      assert (F : target st2 = target st /\ semv st2 = semv st).
      { subst st2. destruct (0 <? value st1); [|auto].
        destruct (wake_next_spec st1) as ((F1 & F2 & _) & _). cbn in *. auto. }
      destruct F as [F1 F2]. assert (H1' : 1 <= target st2) by lia.
      destruct (retarget_spec st2 w H1') as (R1 & R2 & _). rewrite R1, R2, F1, F2. lia.
  - destruct (memN w (holders st)); [|lia].
    set (st1 := set_holders st (removeN w (holders st)) (nhold st - 1) (admitted st)).
    destruct (target st1 <? semv st1); [cbn; lia|].
    destruct (release_spec st1) as ((F1 & F2 & _) & _). cbn in *. rewrite <- F1, <- F2. lia.
  - destruct (find_waiter w (waiters st)) as [[| |]|]; try (cbn; lia).
    destruct (memN w (cpend st)); cbn; lia.
  - exfalso. now apply (Hl n).
Qed.

Lemma excess_no_raise st l : InvN st -> (forall n, l <> SetTarget n) -> excess (step st l) <= excess st.
Proof.
  intros H Hl. destruct (semv_no_raise st l H Hl) as [H1 H2]. unfold excess. rewrite H2. lia.
Qed.

Lemma excess_exit st w : memN w (holders st) = true -> 0 < excess st ->
  excess (step st (Exit w)) = excess st - 1.
Proof.
  intros Hm He. unfold excess in *. assert (Hlt : target st < semv st) by lia.
  destruct (exit_retires st w Hm Hlt) as (E1 & _ & _ & E4). rewrite E1, E4. lia.
Qed.

(* an admission brings the number of permits up to the target *)
Lemma admission_reaches_target st w : 1 <= target st -> known st w = false -> locked st = false ->
  let st' := step st (Start w) in
  semv st' = Z.max (semv st) (target st) /\ holders st' = w :: holders st.
Proof.
  intros H1 Hk Hl. cbn [step]. rewrite Hk, Hl.
  assert (Et : (target st <=? 0) = false) by (apply Z.leb_gt; lia). rewrite Et.
  destruct (retarget_spec (upd_sem st (value st - 1) (waiters st)) w H1) as (_ & R2 & R3 & _).
  cbn in *. auto.
Qed.

(* an exit below the target hands its permit to the first queued waiter *)
Lemma exit_serves_head st w ws : memN w (holders st) = true -> semv st <= target st ->
  wake_first (waiters st) = Some ws ->
  waiters (step st (Exit w)) = ws /\ value (step st (Exit w)) = value st.
Proof.
  intros Hm Hle Hw. cbn [step]. rewrite Hm. cbn.
  assert (E : (target st <? semv st) = false) by (apply Z.ltb_ge; lia). rewrite E.
  unfold release, wake_next. cbn. rewrite Hw. cbn. split; auto. lia.
Qed.

(* whether or not a permit is free (on the original tree only when one was: F18) *)
Lemma zero_refuses st w : target st <= 0 -> known st w = false ->
  let st' := step st (Start w) in
  refused st' = w :: refused st /\ holders st' = holders st /\ nhold st' = nhold st /\
  waiters st' = waiters st /\ value st' = value st /\ semv st' = semv st.
Proof.
  intros Ht Hk. cbn [step]. rewrite Hk.
  assert (E : (target st <=? 0) = true) by (apply Z.leb_le; lia). rewrite E. cbn. repeat split; reflexivity.
Qed.
