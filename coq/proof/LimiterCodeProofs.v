(* Running the regenerated code of Concurrency (model/LimiterCode.v) = the primitives of the hand-written
   limiter model (model/Limiter.v). *)
From AV Require Import Base Limiter LimiterProofs Gen_session LimiterCode.
Local Open Scope Z_scope.
Local Arguments Z.add : simpl never.
Local Arguments Z.sub : simpl never.
Local Arguments Z.to_nat : simpl never.

(* __aexit__: retire a permit while there are more than the target, else hand it back *)
Theorem aexit_code st :
  cexec 4 0 st conc_aexit = CNormal (if target st <? semv st then set_semv st (semv st - 1) else release st).
Proof. cbn. destruct (target st <? semv st); reflexivity. Qed.

(* set_target *)
Theorem set_target_code st n : cexec 2 n st conc_set_target = CNormal (set_target st n).
Proof. reflexivity. Qed.

(* __aenter__: refusal at once, else the wait for a permit with _retarget_semaphore still to run *)
Theorem aenter_code st :
  cexec 3 0 st conc_aenter = if target st <=? 0 then CRaised st else CSuspend st [SRetarget].
Proof. cbn. destruct (target st <=? 0); reflexivity. Qed.

(* _retarget_semaphore: refusal, else the permits are brought up to the target one release at a time *)
Lemma release_keeps st : target (release st) = target st /\ semv (release st) = semv st.
Proof. destruct (release_spec st) as ((F1 & F2 & _) & _). split; congruence. Qed.

Lemma retarget_loop : forall n st rest, Z.to_nat (target st - semv st) = n ->
  forall k, cexec (3 * n + 1 + k) 0 st
              (SWhile (CLt (EVar CSemValue) (EVar CTarget)) [SAssign CSemValue (EAdd (EVar CSemValue) (EConst 1)); SRelease] :: rest)
            = cexec k 0 (release_n n st) rest.
Proof.
  induction n as [|n IH]; intros st rest Hn k.
  - assert (E : (semv st <? target st) = false) by (apply Z.ltb_ge; lia).
    change (3 * 0 + 1 + k)%nat with (S k). cbn [cexec ccheck ceval]. rewrite E. reflexivity.
  - assert (E : (semv st <? target st) = true) by (apply Z.ltb_lt; lia).
    replace (3 * S n + 1 + k)%nat with (S (S (S (3 * n + 1 + k)))) by lia.
    cbn [cexec ccheck ceval app]. rewrite E. cbn [cexec ceval release_n].
    destruct (release_keeps (set_semv st (semv st + 1))) as [Ht Hs].
    rewrite IH; [reflexivity|]. rewrite Ht, Hs. cbn. lia.
Qed.

Theorem retarget_code st :
  let n := Z.to_nat (target st - semv st) in
  cexec (3 * n + 4) 0 st conc_retarget =
  if target st <=? 0 then CRaised st else CNormal (release_n n st).
Proof.
  cbv zeta. unfold conc_retarget. set (n := Z.to_nat (target st - semv st)).
  replace (3 * n + 4)%nat with (S (3 * n + 1 + 2)) by lia. cbn [cexec ccheck ceval].
  destruct (target st <=? 0) eqn:E.
  - replace (3 * n + 1 + 2)%nat with (S (3 * n + 2)) by lia. reflexivity.
  - cbn [app]. rewrite (retarget_loop n st [] eq_refl 2). reflexivity.
Qed.

(* the generated code contains nothing the translator did not understand *)
Fixpoint stmts_known (fuel : nat) (ss : list cstmt) : bool :=
  match fuel with
  | O => false
  | S f => forallb (fun s => match s with
                             | SUnknown => false
                             | SIf CUnknown _ _ | SWhile CUnknown _ => false
                             | SIf _ a b => stmts_known f a && stmts_known f b
                             | SWhile _ b => stmts_known f b
                             | _ => true end) ss
  end.
Theorem concurrency_code_known :
  stmts_known 5 conc_retarget && stmts_known 5 conc_aenter && stmts_known 5 conc_aexit && stmts_known 5 conc_set_target = true.
Proof. reflexivity. Qed.

(* the model's labels are built from exactly these pieces:
   Exit w     = the holder leaves, then __aexit__;
   retarget   = _retarget_semaphore, then the worker is inside (or refused);
   SetTarget  = set_target. *)
Theorem exit_is_aexit st w : memN w (holders st) = true ->
  CNormal (step st (Exit w)) =
  cexec 4 0 (set_holders st (removeN w (holders st)) (nhold st - 1) (admitted st)) conc_aexit.
Proof. intros H. rewrite aexit_code. cbn [step]. rewrite H. reflexivity. Qed.

Theorem retarget_is_code st w : 0 < target st ->
  exists st', cexec (3 * Z.to_nat (target st - semv st) + 4) 0 st conc_retarget = CNormal st' /\
              retarget st w = set_holders st' (w :: holders st') (nhold st' + 1) (admitted st' ++ [w]).
Proof.
  intros Ht. rewrite retarget_code. assert (E : (target st <=? 0) = false) by (apply Z.leb_gt; lia). rewrite E.
  eexists. split; [reflexivity|]. unfold retarget. rewrite E. reflexivity.
Qed.

Theorem settarget_is_code st n : CNormal (step st (SetTarget n)) = cexec 2 n st conc_set_target.
Proof. reflexivity. Qed.
