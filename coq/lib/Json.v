(* JSON values as Python's json module sees them, the printer json.dumps(v,
   separators=(',',':')) (ensure_ascii, allow_nan defaults) and the parser json.loads.
   Strings are lists of code points (lone surrogates allowed, as in a Python str); a float is
   an opaque token carrying its repr text (oracle: float(repr x) = x).  No proofs here. *)
From AV Require Import Base Utf8.
Local Open Scope N_scope.

Inductive json :=
| JNull
| JBool (b : bool)
| JInt (z : Z)
| JFloat (tok : text)                 (* repr text: 1.5, 1e+22, nan, inf, -inf *)
| JStr (s : text)
| JArr (l : list json)
| JObj (l : list (text * json)).      (* insertion order, keys unique *)

Definition text_eqb := list_eqb N.eqb.

(* ---------- dict helpers (Python dict semantics) ---------- *)
Fixpoint obj_get (k : text) (l : list (text * json)) : option json :=
  match l with
  | [] => None
  | (k', v) :: r => if text_eqb k k' then Some v else obj_get k r
  end.
Definition obj_has (k : text) (l : list (text * json)) : bool :=
  match obj_get k l with Some _ => true | None => false end.
(* d[k] = v : replaces in place or appends *)
Fixpoint obj_set (k : text) (v : json) (l : list (text * json)) : list (text * json) :=
  match l with
  | [] => [(k, v)]
  | (k', v') :: r => if text_eqb k k' then (k', v) :: r else (k', v') :: obj_set k v r
  end.

(* ---------- printing ---------- *)
Definition hexdigit (n : N) : N := if n <? 10 then 48 + n else 87 + n.   (* lower case *)
Definition u_escape (c : N) : text :=
  [92; 117; hexdigit (c / 4096); hexdigit ((c / 256) mod 16); hexdigit ((c / 16) mod 16); hexdigit (c mod 16)].

(* json.encoder.py_encode_basestring_ascii: escapes the backslash, the double quote and everything outside space..tilde *)
Definition esc_char (c : N) : text :=
  if c =? 34 then [92; 34]
  else if c =? 92 then [92; 92]
  else if c =? 10 then [92; 110]
  else if c =? 13 then [92; 114]
  else if c =? 9 then [92; 116]
  else if c =? 8 then [92; 98]
  else if c =? 12 then [92; 102]
  else if (32 <=? c) && (c <=? 126) then [c]
  else if c <? 65536 then u_escape c
  else let v := c - 65536 in u_escape (55296 + v / 1024) ++ u_escape (56320 + v mod 1024).

Definition print_string (s : text) : text := 34 :: flat_map esc_char s ++ [34].

Fixpoint pos_digits (fuel : nat) (p : N) (acc : text) : text :=
  match fuel with
  | O => acc
  | S f => if p <? 10 then (48 + p) :: acc else pos_digits f (p / 10) ((48 + p mod 10) :: acc)
  end.
Definition print_nat (n : N) : text := pos_digits (S (N.to_nat (N.log2 n))) n [].
Definition print_int (z : Z) : text :=
  match z with
  | Z0 => [48]
  | Zpos p => print_nat (Npos p)
  | Zneg p => 45 :: print_nat (Npos p)
  end.

(* float.__repr__ text -> JSON text (encoder.floatstr) *)
Definition print_float (tok : text) : text :=
  if text_eqb tok [110; 97; 110] then [78; 97; 78]                                   (* nan -> NaN *)
  else if text_eqb tok [105; 110; 102] then [73; 110; 102; 105; 110; 105; 116; 121]  (* inf -> Infinity *)
  else if text_eqb tok [45; 105; 110; 102] then [45; 73; 110; 102; 105; 110; 105; 116; 121]
  else tok.

Fixpoint join_with (sep : N) (l : list text) : text :=
  match l with
  | [] => []
  | [x] => x
  | x :: r => x ++ sep :: join_with sep r
  end.

Fixpoint print (v : json) : text :=
  match v with
  | JNull => [110; 117; 108; 108]
  | JBool true => [116; 114; 117; 101]
  | JBool false => [102; 97; 108; 115; 101]
  | JInt z => print_int z
  | JFloat t => print_float t
  | JStr s => print_string s
  | JArr l => 91 :: join_with 44 (map print l) ++ [93]
  | JObj l => 123 :: join_with 44 (map (fun kv => print_string (fst kv) ++ 58 :: print (snd kv)) l) ++ [125]
  end.

(* ---------- parsing: json.loads on a str ---------- *)
Inductive perr := BadJson | TooDeep | TooManyDigits.
Inductive presult (A : Type) := POk (v : A) (rest : text) | PErr (e : perr).
Arguments POk {A}. Arguments PErr {A}.

Definition is_ws (c : N) : bool := (c =? 32) || (c =? 9) || (c =? 10) || (c =? 13).
Fixpoint skip_ws (s : text) : text :=
  match s with c :: r => if is_ws c then skip_ws r else s | [] => [] end.
Definition is_digit (c : N) : bool := (48 <=? c) && (c <=? 57).
Definition hexval (c : N) : option N :=
  if is_digit c then Some (c - 48)
  else if (97 <=? c) && (c <=? 102) then Some (c - 87)
  else if (65 <=? c) && (c <=? 70) then Some (c - 55)
  else None.
Definition hex4 (s : text) : option (N * text) :=
  match s with
  | a :: b :: c :: d :: r =>
      match hexval a, hexval b, hexval c, hexval d with
      | Some a, Some b, Some c, Some d => Some (a * 4096 + b * 256 + c * 16 + d, r)
      | _, _, _, _ => None
      end
  | _ => None
  end.

(* body of a string after the opening quote (py_scanstring, strict) *)
Fixpoint scan_string (fuel : nat) (s : text) (acc : text) : presult text :=
  match fuel with
  | O => PErr BadJson
  | S f =>
    match s with
    | [] => PErr BadJson
    | c :: r =>
      if c =? 34 then POk (rev acc) r
      else if c <? 32 then PErr BadJson
      else if c =? 92 then
        match r with
        | [] => PErr BadJson
        | e :: r' =>
          if e =? 117 then
            match hex4 r' with
            | None => PErr BadJson
            | Some (u, r2) =>
              if (55296 <=? u) && (u <=? 56319) then
                match r2 with
                | 92 :: 117 :: r3 =>
                    match hex4 r3 with
                    | Some (u2, r4) =>
                        if (56320 <=? u2) && (u2 <=? 57343)
                        then scan_string f r4 (65536 + (u - 55296) * 1024 + (u2 - 56320) :: acc)
                        else scan_string f r2 (u :: acc)
                    | None => scan_string f r2 (u :: acc)
                    end
                | _ => scan_string f r2 (u :: acc)
                end
              else scan_string f r2 (u :: acc)
            end
          else
            let simple := if e =? 34 then Some 34 else if e =? 92 then Some 92 else if e =? 47 then Some 47
                          else if e =? 98 then Some 8 else if e =? 102 then Some 12 else if e =? 110 then Some 10
                          else if e =? 114 then Some 13 else if e =? 116 then Some 9 else None in
            match simple with
            | Some x => scan_string f r' (x :: acc)
            | None => PErr BadJson
            end
        end
      else scan_string f r (c :: acc)
    end
  end.

Fixpoint take_digits (s : text) (acc : text) : text * text :=
  match s with
  | c :: r => if is_digit c then take_digits r (c :: acc) else (rev acc, s)
  | [] => (rev acc, [])
  end.
Definition digits_value (ds : text) : N := fold_left (fun a c => a * 10 + (c - 48)) ds 0.

(* json.scanner NUMBER_RE: optional minus, 0 or a nonzero digit followed by digits, optional
   fraction, optional exponent; [maxdigits] = sys.get_int_max_str_digits() *)
Definition scan_number (maxdigits : nat) (s : text) : option (presult json) :=
  let '(neg, s1) := match s with 45 :: r => (true, r) | _ => (false, s) end in
  match s1 with
  | c :: _ =>
    if is_digit c then
      let '(ip, r1) := if c =? 48 then ([48], tl s1) else take_digits s1 [] in
      let '(frac, r2) := match r1 with
                         | 46 :: d :: r' => if is_digit d then let '(fd, r'') := take_digits (d :: r') [] in (46 :: fd, r'')
                                            else ([], r1)
                         | _ => ([], r1) end in
      let '(ex, r3) := match r2 with
                       | e :: r' =>
                         if (e =? 101) || (e =? 69) then
                           let '(sg, r'') := match r' with
                                             | 43 :: q => ([43], q) | 45 :: q => ([45], q) | _ => ([], r') end in
                           match r'' with
                           | d :: _ => if is_digit d then let '(ed, r4) := take_digits r'' [] in (e :: sg ++ ed, r4)
                                       else ([], r2)
                           | [] => ([], r2)
                           end
                         else ([], r2)
                       | [] => ([], r2) end in
      match frac, ex with
      | [], [] =>
          if (maxdigits <? length ip)%nat then Some (PErr TooManyDigits)
          else let v := Z.of_N (digits_value ip) in Some (POk (JInt (if neg then (- v)%Z else v)) r3)
      | _, _ => Some (POk (JFloat ((if neg then [45] else []) ++ ip ++ frac ++ ex)) r3)
      end
    else None
  | [] => None
  end.

Fixpoint starts_with (p s : text) : option text :=
  match p, s with
  | [], _ => Some s
  | a :: p', b :: s' => if a =? b then starts_with p' s' else None
  | _, [] => None
  end.

Section Parse.
Variable maxdigits : nat.

(* [depth] = remaining nesting budget (RecursionError when exhausted) *)
Fixpoint parse_value (fuel : nat) (depth : nat) (s : text) : presult json :=
  match fuel with
  | O => PErr BadJson
  | S f =>
    match s with
    | [] => PErr BadJson
    | c :: r =>
      if c =? 34 then
        match scan_string (S (length r)) r [] with POk t r' => POk (JStr t) r' | PErr e => PErr e end
      else if c =? 123 then
        match depth with
        | O => PErr TooDeep
        | S d =>
          let r1 := skip_ws r in
          match r1 with
          | 125 :: r2 => POk (JObj []) r2
          | _ => parse_members f d r1 []
          end
        end
      else if c =? 91 then
        match depth with
        | O => PErr TooDeep
        | S d =>
          let r1 := skip_ws r in
          match r1 with
          | 93 :: r2 => POk (JArr []) r2
          | _ => parse_elements f d r1 []
          end
        end
      else
        match starts_with [110; 117; 108; 108] s with Some r' => POk JNull r' | None =>
        match starts_with [116; 114; 117; 101] s with Some r' => POk (JBool true) r' | None =>
        match starts_with [102; 97; 108; 115; 101] s with Some r' => POk (JBool false) r' | None =>
        match scan_number maxdigits s with Some res => res | None =>
        match starts_with [78; 97; 78] s with Some r' => POk (JFloat [110; 97; 110]) r' | None =>
        match starts_with [73; 110; 102; 105; 110; 105; 116; 121] s with Some r' => POk (JFloat [105; 110; 102]) r' | None =>
        match starts_with [45; 73; 110; 102; 105; 110; 105; 116; 121] s with Some r' => POk (JFloat [45; 105; 110; 102]) r' | None =>
        PErr BadJson end end end end end end end
    end
  end
with parse_elements (fuel : nat) (depth : nat) (s : text) (acc : list json) : presult json :=
  match fuel with
  | O => PErr BadJson
  | S f =>
    match parse_value f depth s with
    | PErr e => PErr e
    | POk v r =>
      match skip_ws r with
      | 44 :: r1 => parse_elements f depth (skip_ws r1) (v :: acc)
      | 93 :: r1 => POk (JArr (rev (v :: acc))) r1
      | _ => PErr BadJson
      end
    end
  end
with parse_members (fuel : nat) (depth : nat) (s : text) (acc : list (text * json)) : presult json :=
  match fuel with
  | O => PErr BadJson
  | S f =>
    match s with
    | 34 :: r =>
      match scan_string (S (length r)) r [] with
      | PErr e => PErr e
      | POk k r1 =>
        match skip_ws r1 with
        | 58 :: r2 =>
          match parse_value f depth (skip_ws r2) with
          | PErr e => PErr e
          | POk v r3 =>
            let acc' := obj_set k v acc in
            match skip_ws r3 with
            | 44 :: r4 => parse_members f depth (skip_ws r4) acc'
            | 125 :: r4 => POk (JObj acc') r4
            | _ => PErr BadJson
            end
          end
        | _ => PErr BadJson
        end
      end
    | _ => PErr BadJson
    end
  end.

(* json.loads(s): BOM check, leading/trailing whitespace, nothing else may follow *)
Definition loads (depth : nat) (s : text) : presult json :=
  match s with
  | 65279 :: _ => PErr BadJson
  | _ =>
    match parse_value (S (S (length s))) depth (skip_ws s) with
    | PErr e => PErr e
    | POk v r => match skip_ws r with [] => POk v [] | _ => PErr BadJson end
    end
  end.
End Parse.

(* ---------- equality (for the correspondence) ---------- *)
Fixpoint json_eqb (a b : json) : bool :=
  match a, b with
  | JNull, JNull => true
  | JBool x, JBool y => Bool.eqb x y
  | JInt x, JInt y => Z.eqb x y
  | JFloat x, JFloat y => text_eqb x y
  | JStr x, JStr y => text_eqb x y
  | JArr x, JArr y =>
      (fix go (x y : list json) : bool :=
         match x, y with
         | [], [] => true
         | a :: x', b :: y' => json_eqb a b && go x' y'
         | _, _ => false
         end) x y
  | JObj x, JObj y =>
      (fix go (x y : list (text * json)) : bool :=
         match x, y with
         | [], [] => true
         | (k, a) :: x', (k', b) :: y' => text_eqb k k' && json_eqb a b && go x' y'
         | _, _ => false
         end) x y
  | _, _ => false
  end.
