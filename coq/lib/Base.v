(* Common definitions shared by all models: bytes as [list N], list helpers,
   and the [mismatches] driver used by the generated correspondence files. *)
From Coq Require Export List NArith ZArith Bool Arith Lia.
Export ListNotations.

Definition byte := N.
Definition bytes := list N.

Definition is_byte (b : N) : bool := (b <? 256)%N.
Definition wf_bytes (l : bytes) : bool := forallb is_byte l.

Fixpoint list_eqb {A} (eqb : A -> A -> bool) (a b : list A) : bool :=
  match a, b with
  | [], [] => true
  | x :: a', y :: b' => eqb x y && list_eqb eqb a' b'
  | _, _ => false
  end.

Definition bytes_eqb := list_eqb N.eqb.

Lemma list_eqb_refl {A} (eqb : A -> A -> bool) :
  (forall x, eqb x x = true) -> forall l, list_eqb eqb l l = true.
Proof. intros H l; induction l as [|x l IH]; cbn; [reflexivity|]. now rewrite H, IH. Qed.

Lemma list_eqb_eq {A} (eqb : A -> A -> bool) :
  (forall x y, eqb x y = true -> x = y) ->
  forall a b, list_eqb eqb a b = true -> a = b.
Proof.
  intros H a; induction a as [|x a IH]; intros [|y b]; cbn; try discriminate; auto.
  intros E. apply andb_true_iff in E as [E1 E2]. f_equal; auto.
Qed.

Lemma bytes_eqb_eq a b : bytes_eqb a b = true <-> a = b.
Proof.
  split.
  - apply list_eqb_eq. intros x y E. now apply N.eqb_eq.
  - intros ->. apply list_eqb_refl. apply N.eqb_refl.
Qed.

Definition option_eqb {A} (eqb : A -> A -> bool) (a b : option A) : bool :=
  match a, b with
  | None, None => true
  | Some x, Some y => eqb x y
  | _, _ => false
  end.

(* indices (from 0) of the cases on which [ok] is false *)
Fixpoint mismatches_from {A} (ok : A -> bool) (l : list A) (i : nat) : list nat :=
  match l with
  | [] => []
  | x :: r => if ok x then mismatches_from ok r (S i) else i :: mismatches_from ok r (S i)
  end.
Definition mismatches {A} (ok : A -> bool) (l : list A) : list nat := mismatches_from ok l 0.

Fixpoint count_true {A} (f : A -> bool) (l : list A) : nat :=
  match l with [] => 0 | x :: r => (if f x then 1 else 0) + count_true f r end.

(* big-endian / little-endian fixed-width numbers *)
Fixpoint le_bytes (n : nat) (v : N) : bytes :=
  match n with O => [] | S n' => (v mod 256)%N :: le_bytes n' (v / 256)%N end.
Fixpoint le_value (l : bytes) : N :=
  match l with [] => 0%N | b :: r => (b + 256 * le_value r)%N end.
Definition be_bytes (n : nat) (v : N) : bytes := rev (le_bytes n v).
Definition be_value (l : bytes) : N := le_value (rev l).

Lemma le_bytes_length n v : length (le_bytes n v) = n.
Proof. revert v; induction n; cbn; auto. Qed.

Lemma le_value_bytes n v : (v < 256 ^ N.of_nat n)%N -> le_value (le_bytes n v) = v.
Proof.
  revert v; induction n as [|n IH]; intros v Hv.
  - cbn in *. lia.
  - cbn [le_bytes le_value]. rewrite IH.
    + pose proof (N.div_mod v 256). lia.
    + rewrite Nat2N.inj_succ, N.pow_succ_r' in Hv.
      apply N.div_lt_upper_bound; lia.
Qed.

Lemma le_bytes_wf n v : wf_bytes (le_bytes n v) = true.
Proof.
  revert v; induction n as [|n IH]; intros v; cbn; auto.
  rewrite IH, andb_true_r. unfold is_byte. apply N.ltb_lt. apply N.mod_lt. lia.
Qed.

Lemma be_bytes_length n v : length (be_bytes n v) = n.
Proof. unfold be_bytes. now rewrite rev_length, le_bytes_length. Qed.

Lemma be_value_bytes n v : (v < 256 ^ N.of_nat n)%N -> be_value (be_bytes n v) = v.
Proof. intros H. unfold be_value, be_bytes. rewrite rev_involutive. now apply le_value_bytes. Qed.

Lemma firstn_app_exact {A} (a b : list A) : firstn (length a) (a ++ b) = a.
Proof. induction a; cbn; auto. now f_equal. Qed.
Lemma skipn_app_exact {A} (a b : list A) : skipn (length a) (a ++ b) = b.
Proof. induction a; cbn; auto. Qed.

Lemma bytes_eqb_refl' a : bytes_eqb a a = true.
Proof. now apply bytes_eqb_eq. Qed.

Lemma skipn_skipn {A} (a b : nat) (l : list A) : skipn a (skipn b l) = skipn (a + b) l.
Proof.
  revert l; induction b as [|b IH]; intros l.
  - now rewrite Nat.add_0_r.
  - rewrite Nat.add_succ_r. destruct l as [|x l]; cbn [skipn].
    + now rewrite !skipn_nil.
    + apply IH.
Qed.

Lemma filter_length_le {A} (f : A -> bool) (l : list A) : length (filter f l) <= length l.
Proof. induction l as [|x l IH]; cbn; auto. destruct (f x); cbn; lia. Qed.

Lemma NoDup_app_snoc {A} (l : list A) x : NoDup l -> ~ In x l -> NoDup (l ++ [x]).
Proof.
  induction l as [|y l IH]; intros Hn Hx; cbn.
  - constructor; [intros []|constructor].
  - inversion Hn; subst. constructor.
    + intros Hin. apply in_app_or in Hin as [Hin|[<-|[]]]; auto. apply Hx. now left.
    + apply IH; auto. intros Hin. apply Hx. now right.
Qed.
