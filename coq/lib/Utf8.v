(* UTF-8 as Python's str.encode() / bytes.decode() do it.  Text = list of code points (N),
   surrogates (U+D800..U+DFFF) allowed in text as in a Python str; encode fails on them
   (UnicodeEncodeError) and on values >= 0x110000 (not a str). *)
From AV Require Import Base.
Local Open Scope N_scope.

Definition text := list N.

Definition is_surrogate (c : N) : bool := (55296 <=? c) && (c <=? 57343).

Definition enc1 (c : N) : option bytes :=
  if c <? 128 then Some [c]
  else if c <? 2048 then Some [192 + c / 64; 128 + c mod 64]
  else if is_surrogate c then None
  else if c <? 65536 then Some [224 + c / 4096; 128 + (c / 64) mod 64; 128 + c mod 64]
  else if c <? 1114112 then
         Some [240 + c / 262144; 128 + (c / 4096) mod 64; 128 + (c / 64) mod 64; 128 + c mod 64]
  else None.

Fixpoint encode (t : text) : option bytes :=
  match t with
  | [] => Some []
  | c :: r => match enc1 c, encode r with
              | Some a, Some b => Some (a ++ b)
              | _, _ => None
              end
  end.

Definition is_cont (b : N) : bool := (128 <=? b) && (b <? 192).

(* strict decoder (what bytes.decode() accepts): shortest form, no surrogates, <= U+10FFFF *)
Fixpoint decode_fuel (fuel : nat) (l : bytes) : option text :=
  match fuel with
  | O => match l with [] => Some [] | _ => None end
  | S f =>
    match l with
    | [] => Some []
    | b0 :: r =>
      if b0 <? 128 then option_map (cons b0) (decode_fuel f r)
      else if b0 <? 194 then None
      else if b0 <? 224 then
        match r with
        | b1 :: r' => if is_cont b1 then option_map (cons ((b0 - 192) * 64 + (b1 - 128))) (decode_fuel f r')
                      else None
        | _ => None end
      else if b0 <? 240 then
        match r with
        | b1 :: b2 :: r' =>
            let c := (b0 - 224) * 4096 + (b1 - 128) * 64 + (b2 - 128) in
            if is_cont b1 && is_cont b2 && (2048 <=? c) && negb (is_surrogate c)
            then option_map (cons c) (decode_fuel f r') else None
        | _ => None end
      else if b0 <? 245 then
        match r with
        | b1 :: b2 :: b3 :: r' =>
            let c := (b0 - 240) * 262144 + (b1 - 128) * 4096 + (b2 - 128) * 64 + (b3 - 128) in
            if is_cont b1 && is_cont b2 && is_cont b3 && (65536 <=? c) && (c <? 1114112)
            then option_map (cons c) (decode_fuel f r') else None
        | _ => None end
      else None
    end
  end.
Definition decode (l : bytes) : option text := decode_fuel (length l) l.
