(* Regular expressions over code-point range classes with bounded repetition, Brzozowski
   derivatives, and a VERIFIED checker that a finite relation between regexes and the states
   of a deterministic automaton is a bisimulation (hence: same language).  Used by C18 to
   compare the regexes regenerated from aiorpcx/util.py with the specification automata. *)
From Coq Require Import List NArith Bool Lia Arith.
Import ListNotations.
Local Open Scope N_scope.

Definition cls := list (N * N).
Definition in_rng (r : N * N) (c : N) : bool := (fst r <=? c) && (c <=? snd r).
Definition in_cls (k : cls) (c : N) : bool := existsb (fun r => in_rng r c) k.

Inductive rx :=
| Emp | Eps | Cls (k : cls) | Cat (a b : rx) | Alt (a b : rx) | Star (a : rx)
| Rep (a : rx) (lo hi : nat).

Definition rx_eq_dec : forall a b : rx, {a = b} + {a <> b}.
Proof. decide equality; try apply Nat.eq_dec. apply list_eq_dec. decide equality; apply N.eq_dec. Defined.
Definition rx_eqb a b := if rx_eq_dec a b then true else false.

Fixpoint nullable (r : rx) : bool :=
  match r with
  | Emp => false | Eps => true | Cls _ => false
  | Cat a b => nullable a && nullable b
  | Alt a b => nullable a || nullable b
  | Star _ => true
  | Rep a lo _ => Nat.eqb lo 0 || nullable a
  end.

Definition is_emp r := match r with Emp => true | _ => false end.
Definition is_eps r := match r with Eps => true | _ => false end.
Definition cat (a b : rx) : rx :=
  if is_emp a || is_emp b then Emp else if is_eps a then b else if is_eps b then a else Cat a b.
Definition alt (a b : rx) : rx :=
  if is_emp a then b else if is_emp b then a else if rx_eqb a b then a else Alt a b.

Fixpoint deriv (c : N) (r : rx) : rx :=
  match r with
  | Emp => Emp | Eps => Emp
  | Cls k => if in_cls k c then Eps else Emp
  | Cat a b => if nullable a then alt (cat (deriv c a) b) (deriv c b) else cat (deriv c a) b
  | Alt a b => alt (deriv c a) (deriv c b)
  | Star a => cat (deriv c a) (Star a)
  | Rep a lo hi => match hi with O => Emp | S hi' => cat (deriv c a) (Rep a (pred lo) hi') end
  end.

Fixpoint matchb (r : rx) (s : list N) : bool :=
  match s with [] => nullable r | c :: s' => matchb (deriv c r) s' end.

(* classes occurring in a regex *)
Fixpoint classes (r : rx) : list cls :=
  match r with
  | Cls k => [k] | Cat a b | Alt a b => classes a ++ classes b
  | Star a | Rep a _ _ => classes a | _ => [] end.

(* two characters are indistinguishable for a set of ranges *)
Definition same_on (ks : list cls) (c c' : N) : Prop :=
  forall k, In k ks -> in_cls k c = in_cls k c'.

Lemma deriv_same : forall r ks c c', incl (classes r) ks -> same_on ks c c' -> deriv c r = deriv c' r.
Proof.
  induction r; intros ks c c' Hi Hs; cbn [deriv classes] in *; auto.
  - rewrite (Hs k); auto. apply Hi; left; auto.
  - assert (incl (classes r1) ks) by (intros x Hx; apply Hi, in_or_app; auto).
    assert (incl (classes r2) ks) by (intros x Hx; apply Hi, in_or_app; auto).
    rewrite (IHr1 ks c c'), (IHr2 ks c c'); auto.
  - assert (incl (classes r1) ks) by (intros x Hx; apply Hi, in_or_app; auto).
    assert (incl (classes r2) ks) by (intros x Hx; apply Hi, in_or_app; auto).
    rewrite (IHr1 ks c c'), (IHr2 ks c c'); auto.
  - rewrite (IHr ks c c'); auto.
  - destruct hi; auto. rewrite (IHr ks c c'); auto.
Qed.

(* boundaries: every range start, and every range end + 1, plus 0 *)
Definition bounds_of (ks : list cls) : list N :=
  0 :: flat_map (fun k => flat_map (fun r => [fst r; snd r + 1]) k) ks.


(* representative of c: the largest boundary <= c *)
Definition rep_from (acc : N) (bs : list N) (c : N) : N :=
  fold_left (fun acc b => if (b <=? c) && (acc <=? b) then b else acc) bs acc.
Definition rep (bs : list N) (c : N) : N := rep_from 0 bs c.

Lemma rep_from_le : forall bs c acc, acc <= c -> rep_from acc bs c <= c.
Proof.
  unfold rep_from. induction bs as [|b bs IH]; intros c acc H; cbn [fold_left]; auto.
  destruct (b <=? c) eqn:E1; destruct (acc <=? b) eqn:E2; cbn [andb]; apply IH; auto.
  apply N.leb_le; auto.
Qed.

Lemma rep_from_ge : forall bs c acc, acc <= rep_from acc bs c.
Proof.
  unfold rep_from. induction bs as [|b bs IH]; intros c acc; cbn [fold_left]; [lia|].
  destruct (b <=? c) eqn:E1; destruct (acc <=? b) eqn:E2; cbn [andb]; try apply IH.
  apply N.leb_le in E2. etransitivity; [exact E2| apply IH].
Qed.

Lemma rep_from_max : forall bs c acc b, In b bs -> b <= c -> b <= rep_from acc bs c.
Proof.
  induction bs as [|x bs IH]; intros c acc b Hin Hb; [destruct Hin|].
  unfold rep_from; cbn [fold_left]. destruct Hin as [->|Hin].
  - destruct (b <=? c) eqn:E1; [|apply N.leb_gt in E1; lia].
    destruct (acc <=? b) eqn:E2; cbn [andb].
    + apply rep_from_ge.
    + apply N.leb_gt in E2. etransitivity; [|apply rep_from_ge]. lia.
  - apply IH; auto.
Qed.

Lemma rng_same : forall ks k r c, In k ks -> In r k -> in_rng r c = in_rng r (rep (bounds_of ks) c).
Proof.
  intros ks k r c Hk Hr. unfold in_rng, rep.
  assert (Hle : rep_from 0 (bounds_of ks) c <= c) by (apply rep_from_le; lia).
  assert (B1: In (fst r) (bounds_of ks)).
  { right. apply in_flat_map. exists k. split; auto. apply in_flat_map. exists r. cbn; auto. }
  assert (B2: In (snd r + 1) (bounds_of ks)).
  { right. apply in_flat_map. exists k. split; auto. apply in_flat_map. exists r. cbn; auto. }
  destruct (fst r <=? c) eqn:E1.
  - apply N.leb_le in E1. pose proof (rep_from_max _ _ 0 _ B1 E1) as H1.
    apply N.leb_le in H1. rewrite H1. cbn [andb].
    destruct (c <=? snd r) eqn:E2.
    + apply N.leb_le in E2. symmetry. apply N.leb_le. lia.
    + apply N.leb_gt in E2. assert (H: snd r + 1 <= c) by lia.
      pose proof (rep_from_max _ _ 0 _ B2 H). symmetry. apply N.leb_gt. lia.
  - apply N.leb_gt in E1. cbn [andb]. symmetry. apply andb_false_iff. left. apply N.leb_gt. lia.
Qed.

Lemma existsb_ext_in {A} (f g : A -> bool) l : (forall x, In x l -> f x = g x) -> existsb f l = existsb g l.
Proof. induction l as [|x l IH]; intros H; cbn; auto. rewrite H, IH; auto; [intros; apply H; right; auto | left; auto]. Qed.

Lemma rep_same : forall ks c, same_on ks c (rep (bounds_of ks) c).
Proof. intros ks c k Hk. unfold in_cls. apply existsb_ext_in. intros r Hr. eapply rng_same; eauto. Qed.

(* derivatives do not invent classes *)
Lemma classes_cat a b : incl (classes (cat a b)) (classes a ++ classes b).
Proof.
  unfold cat. destruct (is_emp a || is_emp b); [intros x []|].
  destruct (is_eps a); [intros x Hx; apply in_or_app; auto|].
  destruct (is_eps b); [intros x Hx; apply in_or_app; auto|]. cbn. apply incl_refl.
Qed.
Lemma classes_alt a b : incl (classes (alt a b)) (classes a ++ classes b).
Proof.
  unfold alt. destruct (is_emp a); [intros x Hx; apply in_or_app; auto|].
  destruct (is_emp b); [intros x Hx; apply in_or_app; auto|].
  destruct (rx_eqb a b); [intros x Hx; apply in_or_app; auto|]. cbn. apply incl_refl.
Qed.

Lemma classes_deriv : forall r c, incl (classes (deriv c r)) (classes r).
Proof.
  induction r; intros c; cbn [deriv classes]; try (intros x []; fail).
  - destruct (in_cls k c); intros x [].
  - destruct (nullable r1).
    + intros x Hx. apply classes_alt in Hx. apply in_app_or in Hx as [Hx|Hx].
      * apply classes_cat in Hx. apply in_app_or in Hx as [Hx|Hx]; apply in_or_app; [left; eapply IHr1; eauto| right; auto].
      * apply in_or_app; right; eapply IHr2; eauto.
    + intros x Hx. apply classes_cat in Hx. apply in_app_or in Hx as [Hx|Hx]; apply in_or_app; [left; eapply IHr1; eauto| right; auto].
  - intros x Hx. apply classes_alt in Hx. apply in_app_or in Hx as [Hx|Hx]; apply in_or_app; [left; eapply IHr1 | right; eapply IHr2]; eauto.
  - intros x Hx. apply classes_cat in Hx. apply in_app_or in Hx as [Hx|Hx]; [eapply IHr; eauto | auto].
  - destruct hi; [intros x []|]. intros x Hx. apply classes_cat in Hx. apply in_app_or in Hx as [Hx|Hx]; [eapply IHr; eauto | auto].
Qed.

(* ---------- regex vs deterministic automaton ---------- *)
Section Automaton.
Variable Q : Type.
Variable qeqb : Q -> Q -> bool.
Hypothesis qeqb_eq : forall a b, qeqb a b = true -> a = b.
Variable qstep : Q -> N -> Q.
Variable qacc : Q -> bool.
Variable qcls : list cls.       (* the classes the automaton's step function distinguishes *)
Hypothesis qstep_same : forall q c c', same_on qcls c c' -> qstep q c = qstep q c'.

Definition runq (q : Q) (s : list N) : bool := qacc (fold_left qstep s q).

Definition pairs := list (rx * Q).
Definition mem_pair (p : rx * Q) (R : pairs) : bool :=
  existsb (fun x => rx_eqb (fst p) (fst x) && qeqb (snd p) (snd x)) R.
Definition check_pair (reps : list N) (R : pairs) (p : rx * Q) : bool :=
  Bool.eqb (nullable (fst p)) (qacc (snd p)) &&
  forallb (fun c => mem_pair (deriv c (fst p), qstep (snd p) c) R) reps.
Definition all_classes (R : pairs) : list cls := flat_map (fun p => classes (fst p)) R ++ qcls.
Definition reps_of (R : pairs) : list N := nodup N.eq_dec (bounds_of (all_classes R)).
Definition check_bisim (R : pairs) : bool := forallb (check_pair (reps_of R) R) R.

Lemma mem_pair_In p R : mem_pair p R = true -> In p R.
Proof.
  unfold mem_pair. intros H. apply existsb_exists in H as [x [Hx H]].
  apply andb_true_iff in H as [H1 H2]. unfold rx_eqb in H1.
  destruct (rx_eq_dec (fst p) (fst x)); try discriminate. apply qeqb_eq in H2.
  destruct p, x; cbn in *; subst; auto.
Qed.

Lemma rep_in_bounds_or_zero : forall bs c, In (rep bs c) (0 :: bs).
Proof.
  unfold rep, rep_from. intros bs c. generalize 0 at 1 2. induction bs as [|b bs IH]; intros acc; cbn [fold_left]; [left; auto|].
  destruct ((b <=? c) && (acc <=? b)).
  - destruct (IH b) as [H|H]; [right; left; auto | right; right; auto].
  - destruct (IH acc) as [H|H]; [left; auto | right; right; auto].
Qed.

Lemma same_on_incl ks ks' c c' : incl ks' ks -> same_on ks c c' -> same_on ks' c c'.
Proof. intros Hi Hs k Hk. apply Hs, Hi, Hk. Qed.

Theorem check_bisim_sound : forall R, check_bisim R = true ->
  forall s r q, In (r, q) R -> matchb r s = runq q s.
Proof.
  intros R HR. unfold check_bisim in HR. rewrite forallb_forall in HR.
  induction s as [|c s IH]; intros r q Hrq; pose proof (HR _ Hrq) as Hp;
    unfold check_pair in Hp; apply andb_true_iff in Hp as [Hn Hd]; cbn [fst snd] in *.
  - cbn. apply eqb_prop; auto.
  - cbn [matchb]. unfold runq. cbn [fold_left]. fold (runq (qstep q c) s).
    set (ks := all_classes R) in *.
    assert (Ir : incl (classes r) ks).
    { intros x Hx. unfold ks, all_classes. apply in_or_app. left. apply in_flat_map. exists (r, q). auto. }
    assert (Iq : incl qcls ks) by (intros x Hx; unfold ks, all_classes; apply in_or_app; now right).
    pose proof (rep_same ks c) as Hs.
    rewrite (deriv_same r ks c (rep (bounds_of ks) c) Ir Hs).
    rewrite (qstep_same q c (rep (bounds_of ks) c) (same_on_incl _ _ _ _ Iq Hs)).
    apply IH. rewrite forallb_forall in Hd. apply mem_pair_In. apply Hd.
    unfold reps_of. apply nodup_In. fold ks.
    destruct (rep_in_bounds_or_zero (bounds_of ks) c) as [H|H]; [rewrite <- H; left; auto | auto].
Qed.

(* untrusted exploration proposing the relation, and an in-Coq search for a distinguishing
   string (breadth first) when the languages differ *)
Fixpoint explore (fuel : nat) (reps : list N) (todo done : pairs) : option pairs :=
  match fuel with
  | O => None
  | S f =>
      match todo with
      | [] => Some done
      | p :: rest =>
          if mem_pair p done then explore f reps rest done
          else explore f reps (map (fun c => (deriv c (fst p), qstep (snd p) c)) reps ++ rest) (p :: done)
      end
  end.

Fixpoint cex (fuel : nat) (reps : list N) (todo : list (list N * (rx * Q))) (done : pairs) : option (list N) :=
  match fuel with
  | O => None
  | S f =>
      match todo with
      | [] => None
      | (path, p) :: rest =>
          if negb (Bool.eqb (nullable (fst p)) (qacc (snd p))) then Some (rev path)
          else if mem_pair p done then cex f reps rest done
          else cex f reps (rest ++ map (fun c => (c :: path, (deriv c (fst p), qstep (snd p) c))) reps) (p :: done)
      end
  end.
End Automaton.
