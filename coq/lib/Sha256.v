(* Executable SHA-256 (FIPS 180-4) over byte lists, used only to *instantiate* the checksum
   oracle of the Bitcoin framer model for execution.  No theorem about SHA-256 is proved or
   needed; the instance is validated against hashlib by the C07 correspondence run and the
   examples below (NIST vectors). *)
From AV Require Import Base.
Local Open Scope N_scope.

Definition M32 : N := 4294967295.
Definition w32 (x : N) : N := N.land x M32.
Definition add32 (a b : N) : N := w32 (a + b).
Definition rotr (n x : N) : N := N.lor (N.shiftr x n) (w32 (N.shiftl x (32 - n))).
Definition shr (n x : N) : N := N.shiftr x n.
Definition not32 (x : N) : N := N.lxor x M32.
Definition ch (x y z : N) : N := N.lxor (N.land x y) (N.land (not32 x) z).
Definition maj (x y z : N) : N := N.lxor (N.lxor (N.land x y) (N.land x z)) (N.land y z).
Definition bsig0 x := N.lxor (N.lxor (rotr 2 x) (rotr 13 x)) (rotr 22 x).
Definition bsig1 x := N.lxor (N.lxor (rotr 6 x) (rotr 11 x)) (rotr 25 x).
Definition ssig0 x := N.lxor (N.lxor (rotr 7 x) (rotr 18 x)) (shr 3 x).
Definition ssig1 x := N.lxor (N.lxor (rotr 17 x) (rotr 19 x)) (shr 10 x).

Definition K256 : list N :=
 [1116352408; 1899447441; 3049323471; 3921009573; 961987163; 1508970993; 2453635748; 2870763221;
  3624381080; 310598401; 607225278; 1426881987; 1925078388; 2162078206; 2614888103; 3248222580;
  3835390401; 4022224774; 264347078; 604807628; 770255983; 1249150122; 1555081692; 1996064986;
  2554220882; 2821834349; 2952996808; 3210313671; 3336571891; 3584528711; 113926993; 338241895;
  666307205; 773529912; 1294757372; 1396182291; 1695183700; 1986661051; 2177026350; 2456956037;
  2730485921; 2820302411; 3259730800; 3345764771; 3516065817; 3600352804; 4094571909; 275423344;
  430227734; 506948616; 659060556; 883997877; 958139571; 1322822218; 1537002063; 1747873779;
  1955562222; 2024104815; 2227730452; 2361852424; 2428436474; 2756734187; 3204031479; 3329325298].

Definition H0 : list N :=
 [1779033703; 3144134277; 1013904242; 2773480762; 1359893119; 2600822924; 528734635; 1541459225].

(* message schedule: [rev_ws] holds the words computed so far, most recent first *)
Fixpoint expand (n : nat) (rev_ws : list N) : list N :=
  match n with
  | O => rev rev_ws
  | S n' =>
      let w := add32 (add32 (ssig1 (nth 1%nat rev_ws 0)) (nth 6%nat rev_ws 0))
                     (add32 (ssig0 (nth 14%nat rev_ws 0)) (nth 15%nat rev_ws 0)) in
      expand n' (w :: rev_ws)
  end.

Definition round (s : list N) (kw : N * N) : list N :=
  match s with
  | [a; b; c; d; e; f; g; h] =>
      let t1 := add32 (add32 (add32 h (bsig1 e)) (add32 (ch e f g) (fst kw))) (snd kw) in
      let t2 := add32 (bsig0 a) (maj a b c) in
      [add32 t1 t2; a; b; c; add32 d t1; e; f; g]
  | _ => s
  end.

Fixpoint words_be (l : bytes) : list N :=
  match l with
  | a :: b :: c :: d :: r => (a * 16777216 + b * 65536 + c * 256 + d) :: words_be r
  | _ => []
  end.

Fixpoint zip {A B} (a : list A) (b : list B) : list (A * B) :=
  match a, b with x :: a', y :: b' => (x, y) :: zip a' b' | _, _ => [] end.

Definition compress (h : list N) (block : bytes) : list N :=
  let ws := expand 48%nat (rev (words_be block)) in
  let s := fold_left round (zip K256 ws) h in
  map (fun p => add32 (fst p) (snd p)) (zip h s).

Fixpoint blocks (fuel : nat) (l : bytes) : list bytes :=
  match fuel with
  | O => []
  | S f => match l with [] => [] | _ => firstn 64%nat l :: blocks f (skipn 64%nat l) end
  end.

Definition pad (m : bytes) : bytes :=
  let len := length m in
  let k := ((119 - len mod 64) mod 64)%nat in   (* zero bytes so that len+1+k+8 = 0 mod 64 *)
  m ++ [128] ++ repeat 0 k ++ be_bytes 8%nat (8 * N.of_nat len).

Definition sha256 (m : bytes) : bytes :=
  let p := pad m in
  let h := fold_left compress (blocks (S (length p / 64)%nat) p) H0 in
  flat_map (be_bytes 4%nat) h.

Definition sha256d (m : bytes) : bytes := sha256 (sha256 m).
Definition sha256d_4 (m : bytes) : bytes := firstn 4%nat (sha256d m).

(* NIST vectors: "" and "abc" *)
Example sha256_empty : firstn 8%nat (sha256 []) = [227; 176; 196; 66; 152; 252; 28; 20].
Proof. vm_compute. reflexivity. Qed.
Example sha256_abc : firstn 8%nat (sha256 [97; 98; 99]) = [186; 120; 22; 191; 143; 1; 207; 234].
Proof. vm_compute. reflexivity. Qed.
Example sha256_len : length (sha256 [97; 98; 99]) = 32%nat.
Proof. vm_compute. reflexivity. Qed.
