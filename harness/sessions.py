"""Real aiorpcx sessions over the real RSTransport / USTransport protocol classes, attached to a
fake asyncio transport on a virtual-time event loop (harness/vloop.py)."""
import asyncio, json
from harness.vloop import VLoop, FakeTransport


def new_loop():
    import logging
    logging.disable(logging.CRITICAL)          # the sessions log every protocol error
    loop = VLoop()
    loop.unhandled = []
    loop.set_exception_handler(lambda l, ctx: l.unhandled.append(repr(ctx.get('exception') or ctx.get('message'))))
    asyncio.set_event_loop(loop)
    return loop


def close_loop(loop):
    try:
        pending = [t for t in asyncio.all_tasks(loop) if not t.done()]
        for t in pending:
            t.cancel()
        if pending:
            loop.run_until_complete(asyncio.gather(*pending, return_exceptions=True))
    except Exception:
        pass
    loop.close()
    asyncio.set_event_loop(None)


def attach(session_factory, kind='server', transport='rs', framer=None, hwm=None, sockbuf=None):
    """instantiate the protocol class, connect it to a FakeTransport; returns (protocol, fake, session)"""
    from aiorpcx import rawsocket, unixsocket
    from aiorpcx.session import SessionKind
    k = SessionKind.SERVER if kind == 'server' else SessionKind.CLIENT
    cls = rawsocket.RSTransport if transport == 'rs' else unixsocket.USTransport
    proto = cls(session_factory, framer, k)
    ft = FakeTransport(proto, hwm=hwm, sockbuf=sockbuf)
    proto.connection_made(ft)
    return proto, ft, proto.session


def sent_messages(ft, start=0):
    """the JSON messages written so far (newline framing)"""
    data = b''.join(ft.written[start:])
    out = []
    for line in data.split(b'\n'):
        if line:
            try:
                out.append(json.loads(line))
            except ValueError:
                out.append({'__raw__': line.decode(errors='replace')})
    return out


async def settle(n=5):
    for _ in range(n):
        await asyncio.sleep(0)
