"""Common machinery of every check (DESIGN.md section 2.1 / 5).

A property module (harness/props/cXX.py) defines a subclass of Prop; run_check() does:
  1. tools/gen_facts.py            -> coq/gen/Gen_*.v   (translator, fail-closed)
  2. make props/Cxx.vo             -> the theorems are re-checked against the current facts
     + Print Assumptions of every Theorem in props/Cxx.v against the allow-list
     + static scan for Admitted/Axiom/... in the development
  3. correspondence: generated cases are run on the implementation (/repo, real code) and
     evaluated on the Coq model with vm_compute; Coq itself compares and prints the indices
     of the mismatching cases
  4. the property oracle (Python statement of the property) on every implementation run
  5. outcome protocol: VIOLATION / KNOWN-FINDING lines, replay files, evidence file
"""
import os, sys, json, time, random, hashlib, subprocess, re, fcntl, glob, traceback
from concurrent.futures import ThreadPoolExecutor

VERIF = '/verif'
COQ = VERIF + '/coq'
REPO = '/repo'
PY = '/venv/bin/python'
NCPU = 16

FORBIDDEN = ['Admitted', 'admit', 'Axiom', 'Axioms', 'Parameter', 'Parameters', 'Conjecture',
             'Conjectures', 'Unset Guard', 'bypass_check', 'Admit Obligations',
             'type-in-type', 'impredicative-set', 'Unset Universe Checking',
             'Unset Positivity Checking']


def sh(cmd, timeout, cwd=None, env=None, input=None):
    e = dict(os.environ)
    if env:
        e.update(env)
    try:
        p = subprocess.run(cmd, shell=isinstance(cmd, str), cwd=cwd, env=e, timeout=timeout,
                           capture_output=True, text=True, input=input)
        return p.returncode, p.stdout + p.stderr
    except subprocess.TimeoutExpired as ex:
        out = (ex.stdout or b'')
        if isinstance(out, bytes):
            out = out.decode(errors='replace')
        return 124, out + '\n[timeout after %ss]' % timeout


# ----------------------------------------------------------------- Coq literals
def c_nat(n):
    return f'{int(n)}%nat'


def c_N(n):
    return f'{int(n)}%N'


def c_Z(n):
    n = int(n)
    return f'({n})%Z'


def c_bool(b):
    return 'true' if b else 'false'


def c_bytes(b):
    return '[' + ';'.join(str(x) for x in bytes(b)) + ']%N' if len(b) else '(@nil N)'


def c_nlist(l):
    l = list(l)
    return '[' + ';'.join(str(int(x)) for x in l) + ']%N' if l else '(@nil N)'


def c_zlist(l):
    l = list(l)
    return '[' + ';'.join(f'({int(x)})' for x in l) + ']%Z' if l else '(@nil Z)'


def c_list(items, ty=None):
    items = list(items)
    if not items:
        return f'(@nil ({ty}))' if ty else '[]'
    return '[' + '; '.join(items) + ']'


def c_opt(x, f, ty=None):
    if x is None:
        return f'(@None {ty})' if ty else 'None'
    return f'(Some {f(x)})'


def c_Q(fr):
    from fractions import Fraction
    fr = Fraction(fr)
    return f'({fr.numerator} # {fr.denominator})%Q'


def c_text(s):
    """Python str -> list of code points"""
    return c_nlist(ord(ch) for ch in s)


# ----------------------------------------------------------------- Coq build
def coq_lock():
    f = open(COQ + '/.lock', 'w')
    fcntl.flock(f, fcntl.LOCK_EX)
    return f


def strip_comments(text):
    out = []
    depth = 0
    i = 0
    n = len(text)
    while i < n:
        if text.startswith('(*', i):
            depth += 1
            i += 2
        elif text.startswith('*)', i) and depth:
            depth -= 1
            i += 2
        else:
            if depth == 0:
                out.append(text[i])
            i += 1
    return ''.join(out)


def module_file(mod):
    for d in ('lib', 'gen', 'model', 'proof', 'props'):
        p = f'{COQ}/{d}/{mod}.v'
        if os.path.exists(p):
            return p
    return None


def dep_closure(path, seen=None):
    seen = seen if seen is not None else {}
    if path in seen:
        return seen
    text = open(path).read()
    seen[path] = text
    for m in re.finditer(r'From AV Require (?:Import|Export) ([^.]*)\.', strip_comments(text)):
        for mod in m.group(1).split():
            f = module_file(mod)
            if f:
                dep_closure(f, seen)
    return seen


def static_scan(files):
    """forbidden vernacular in the development; Variable/Hypothesis only inside a Section"""
    bad = []
    for path, text in files.items():
        code = strip_comments(text)
        for w in FORBIDDEN:
            if re.search(r'(?<![\w.])' + re.escape(w) + r'(?![\w])', code):
                bad.append(f'{os.path.relpath(path, COQ)}: {w}')
        depth = 0
        for line in code.split('\n'):
            s = line.strip()
            if re.match(r'Section\s+\w+', s):
                depth += 1
            elif re.match(r'End\s+\w+', s) and depth:
                depth -= 1
            elif depth == 0 and re.match(r'(Variable|Variables|Hypothesis|Hypotheses|Context)\b', s):
                bad.append(f'{os.path.relpath(path, COQ)}: {s.split()[0]} outside a Section')
    return bad


STMT = re.compile(r'^\s*(?:Local\s+|Global\s+)?(Theorem|Lemma|Corollary|Example|Fact|Remark|Proposition)\s+(\w+)', re.M)
CLOSE = re.compile(r'\b(Qed|Defined)\s*\.')


def count_obligations(files):
    ob = dis = 0
    for path, text in files.items():
        code = strip_comments(text)
        ob += len(STMT.findall(code))
        dis += len(re.findall(r'\bQed\s*\.', code))
    return ob, dis


def gen_facts():
    rc, out = sh([PY, VERIF + '/tools/gen_facts.py'], 300,
                 env={'PYTHONPATH': REPO, 'PYTHONHASHSEED': '0'})
    failed = []
    for line in out.splitlines():
        if line.startswith('{"failed"'):
            failed = json.loads(line)['failed']
    return rc, failed, out


def ensure_makefile():
    """(re)create _CoqProject/Makefile when the set of .v files changed"""
    files = []
    for d in ('lib', 'gen', 'model', 'proof', 'props'):
        files += sorted(os.path.relpath(p, COQ) for p in glob.glob(f'{COQ}/{d}/*.v'))
    text = '-Q . AV\n' + '\n'.join(files) + '\n'
    cp = COQ + '/_CoqProject'
    if not os.path.exists(cp) or open(cp).read() != text or not os.path.exists(COQ + '/Makefile'):
        open(cp, 'w').write(text)
        sh('coq_makefile -f _CoqProject -o Makefile', 120, cwd=COQ)


def coq_build(targets, timeout=2400):
    ensure_makefile()
    rc, out = sh(['make', f'-j{NCPU}'] + targets, timeout, cwd=COQ)
    return rc, out


def coqc_file(path, timeout=600):
    rc, out = sh(['coqc', '-Q', '.', 'AV', path], timeout, cwd=COQ)
    return rc, out


def print_assumptions(prop_id, theorems):
    os.makedirs(COQ + '/corr', exist_ok=True)
    path = f'{COQ}/corr/assum_{prop_id}_{os.getpid()}.v'
    with open(path, 'w') as f:
        f.write(f'From AV Require Import {prop_id}.\n')
        for t in theorems:
            f.write(f'Print Assumptions {t}.\n')
    rc, out = coqc_file(path, 900)
    for ext in ('.v', '.vo', '.vok', '.vos', '.glob'):
        try:
            os.remove(path[:-2] + ext)
        except OSError:
            pass
    try:
        os.remove(f'{COQ}/corr/.assum_{prop_id}_{os.getpid()}.aux')
    except OSError:
        pass
    axioms = set()
    closed = out.count('Closed under the global context')
    for m in re.finditer(r'^([A-Za-z_][\w.\']*)\s*:', out, re.M):
        axioms.add(m.group(1))
    return rc, closed, sorted(axioms), out


def parse_natlist(out):
    m = re.search(r'=\s*\[(.*?)\]\s*:\s*list nat', out, re.S)
    if not m:
        return None
    body = m.group(1).strip()
    if not body:
        return []
    return [int(x) for x in re.findall(r'\d+', body)]


def eval_cases(prop_id, header, case_type, check_fn, case_terms, shard=250, timeout=900):
    """Evaluate `check_fn` on every case inside Coq (vm_compute); returns
    (list of mismatching global indices, list of (shard, error text) for failed shards)."""
    os.makedirs(COQ + '/corr', exist_ok=True)
    pid = os.getpid()
    jobs = []
    for k in range(0, len(case_terms), shard):
        part = case_terms[k:k + shard]
        path = f'{COQ}/corr/cases_{prop_id}_{pid}_{k}.v'
        with open(path, 'w') as f:
            f.write(header + '\n')
            f.write(f'Definition cases : list ({case_type}) :=\n [ ')
            f.write(';\n   '.join(part))
            f.write(' ].\n')
            f.write(f'Eval vm_compute in (mismatches {check_fn} cases).\n')
        jobs.append((k, path))

    def run(job):
        k, path = job
        rc, out = coqc_file(path, timeout)
        return k, path, rc, out

    mism, errors = [], []
    with ThreadPoolExecutor(NCPU) as ex:
        for k, path, rc, out in ex.map(run, jobs):
            idx = parse_natlist(out) if rc == 0 else None
            if idx is None:
                errors.append((k, out[-1500:]))
            else:
                mism += [k + i for i in idx]
            base = path[:-2]
            for ext in ('.v', '.vo', '.vok', '.vos', '.glob'):
                if ext == '.v' and idx is None:
                    continue       # keep the failing source for inspection
                try:
                    os.remove(base + ext)
                except OSError:
                    pass
            try:
                os.remove(os.path.dirname(path) + '/.' + os.path.basename(base) + '.aux')
            except OSError:
                pass
    return sorted(mism), errors


def eval_show(prop_id, header, term, timeout=300):
    """evaluate one Coq term and return the printed text (for replay files)"""
    os.makedirs(COQ + '/corr', exist_ok=True)
    path = f'{COQ}/corr/show_{prop_id}_{os.getpid()}.v'
    with open(path, 'w') as f:
        f.write(header + '\n' + f'Eval vm_compute in ({term}).\n')
    rc, out = coqc_file(path, timeout)
    for ext in ('.v', '.vo', '.vok', '.vos', '.glob'):
        try:
            os.remove(path[:-2] + ext)
        except OSError:
            pass
    try:
        os.remove(f'{COQ}/corr/.show_{prop_id}_{os.getpid()}.aux')
    except OSError:
        pass
    return re.sub(r'\s+', ' ', out).strip()[:4000]


# ----------------------------------------------------------------- property interface
class Failure:
    """an oracle failure on the implementation"""

    def __init__(self, case, observed, clause):
        self.case, self.observed, self.clause = case, observed, clause


class Prop:
    id = 'C00'
    title = ''
    theorems_file = None          # props module name, default = id
    allowed_axioms = ()           # names Print Assumptions may list
    coq_header = ''               # Require lines for the cases files
    case_type = ''                # Coq type of one case
    check_fn = 'case_ok'
    sizes = {'quick': 1000, 'thorough': 20000}
    shard = 250
    trusted = ()                  # extra trusted-base lines
    assumptions = ()              # evidence.assumptions
    rule = ''
    parallel_impl = True

    # --- to override
    def corpus(self):
        return []

    def generate(self, rng, n, tier):
        """yield n JSON-serialisable cases"""
        raise NotImplementedError

    def run_impl(self, case):
        """run the real code, return a JSON-serialisable canonical observation"""
        raise NotImplementedError

    def coq_case(self, case, obs):
        """Coq term of type case_type for (case, observation); None = not comparable"""
        raise NotImplementedError

    def oracle(self, case, obs):
        """None, or a string naming the clause of the property that fails"""
        return None

    def nontrivial(self, case, obs):
        return True

    def key(self, case, obs):
        return json.dumps(case, sort_keys=True, default=str)

    def classify(self, case, obs, clause):
        """id of the known finding a failure belongs to, or None"""
        return None

    def histogram(self, case, obs):
        """labels counted into the evidence"""
        return []

    def coq_show(self, case, obs):
        return None

    def extra_checks(self, ctx):
        """additional checks (exhaustive sweeps etc.); return list of Failure"""
        return []

    def shrink(self, case):
        """yield smaller variants of a failing case"""
        return []


def _shorten(x, limit=400):
    """evidence samples: long strings / lists are cut (the replay files keep everything)"""
    if isinstance(x, str) and len(x) > limit:
        return x[:limit] + f'...[{len(x)} chars]'
    if isinstance(x, list):
        y = [_shorten(v, limit) for v in x[:80]]
        return y + [f'...[{len(x)} items]'] if len(x) > 80 else y
    if isinstance(x, dict):
        return {k: _shorten(v, limit) for k, v in x.items()}
    return x


def load_known():
    p = VERIF + '/known_findings.json'
    if not os.path.exists(p):
        return []
    return json.load(open(p))


def write_replay(prop_id, payload):
    d = f'{VERIF}/replays/{prop_id}'
    os.makedirs(d, exist_ok=True)
    blob = json.dumps(payload, sort_keys=True, default=str, indent=1)
    h = hashlib.sha1(blob.encode()).hexdigest()[:12]
    path = f'{d}/{h}.json'
    with open(path, 'w') as f:
        f.write(blob)
    return path


class CaseTimeout(KeyboardInterrupt):
    pass


def _impl_worker(args):
    import signal
    prop, cases = args
    res = []
    limit = getattr(prop, 'case_timeout', 20)

    def on_alarm(signum, frame):
        raise CaseTimeout()
    try:
        old = signal.signal(signal.SIGALRM, on_alarm)
    except ValueError:           # not the main thread: no limit available
        old = None
    hangs = 0
    for c in cases:
        if hangs >= 2:           # do not spend the whole budget waiting: the first hangs are reported
            res.append({'__skipped_after_hangs__': True})
            continue
        try:
            if old is not None:
                signal.setitimer(signal.ITIMER_REAL, limit, 1.0)     # repeats: clean-up code may block too
            res.append(prop.run_impl(c))
        except CaseTimeout:      # the implementation hangs or runs away on this input: a finding, not a stall
            signal.setitimer(signal.ITIMER_REAL, 0)
            hangs += 1
            res.append({'__driver_error__': f'the implementation did not finish within {limit} s on this input '
                                            '(hang or runaway loop)', 'tb': ''})
        except Exception as e:     # the driver itself failed: report, never hide
            res.append({'__driver_error__': f'{type(e).__name__}: {e}',
                        'tb': traceback.format_exc()[-800:]})
        finally:
            if old is not None:
                signal.setitimer(signal.ITIMER_REAL, 0)
    if old is not None:
        signal.signal(signal.SIGALRM, old)
    return res


def run_impl_all(prop, cases):
    if not prop.parallel_impl or len(cases) < 64:
        return _impl_worker((prop, cases))
    import multiprocessing as mp
    k = max(1, len(cases) // (NCPU * 4))
    chunks = [cases[i:i + k] for i in range(0, len(cases), k)]
    with mp.get_context('fork').Pool(NCPU) as pool:
        parts = pool.map(_impl_worker, [(prop, ch) for ch in chunks])
    return [x for p in parts for x in p]


def run_check(prop, tier, seed, replay=None):
    t0 = time.time()
    pid = prop.id
    lines = []                     # VIOLATION lines
    known_printed = {}
    notes = []
    broken = []                    # broken obligations (text)
    os.makedirs(f'{VERIF}/evidence', exist_ok=True)
    known = [k for k in load_known() if k.get('property') == pid and k.get('status') == 'known']

    # ---- 1/2. translator + proofs
    lock = coq_lock()
    try:
        rc, failed, gout = gen_facts()
        if rc != 0:
            broken.append({'kind': 'translator', 'what': f'gen_facts failed for {failed}',
                           'log': gout[-1500:]})
        mod = prop.theorems_file or pid
        rc, bout = coq_build([f'props/{mod}.vo'])
        build_ok = rc == 0
        if not build_ok:
            m = re.search(r'File "\./([^"]+)", line (\d+).*?\n(Error:.*?)(?:\n\n|\nmake)', bout, re.S)
            what = f'{m.group(1)}:{m.group(2)} {m.group(3)[:600]}' if m else bout[-800:]
            broken.append({'kind': 'proof', 'what': f'build of props/{mod}.vo failed: {what}'})
    finally:
        lock.close()
    files = dep_closure(f'{COQ}/props/{mod}.v')
    obligations, discharged = count_obligations(files)
    bad = static_scan(files)
    if bad:
        broken.append({'kind': 'static', 'what': 'forbidden vernacular: ' + '; '.join(bad)})
    theorems = [n for k, n in STMT.findall(strip_comments(open(f'{COQ}/props/{mod}.v').read()))
                if k == 'Theorem']
    axioms = []
    if build_ok:
        rc, closed, axioms, aout = print_assumptions(mod, theorems)
        if rc != 0:
            broken.append({'kind': 'proof', 'what': 'Print Assumptions failed: ' + aout[-600:]})
        extra = [a for a in axioms if a not in prop.allowed_axioms]
        if extra:
            broken.append({'kind': 'axioms', 'what': f'assumptions outside the allow-list: {extra}'})
        if tier == 'thorough':
            # the independent checker re-checks the compiled property module and everything it loads
            rc, cout = sh(['coqchk', '-silent', '-o', '-Q', '.', 'AV', f'AV.props.{mod}'], 3600, cwd=COQ)
            m = re.search(r'\* Axioms:\s*(.*?)\n\s*\n', cout, re.S)
            ax = m.group(1).strip() if m else '?'
            notes.append(f'coqchk -o AV.props.{mod}: exit {rc}, axioms: {ax}')
            if rc != 0 or ax != '<none>':
                broken.append({'kind': 'proof', 'what': f'coqchk did not accept AV.props.{mod} without axioms: exit {rc}, axioms {ax}; '
                                                        + cout[-400:]})
    else:
        discharged = 0

    # ---- 3/4. cases: corpus first, then generated
    rng = random.Random(f'{seed}:{pid}')
    n = prop.sizes[tier]
    cases = list(prop.corpus())
    ncorpus = len(cases)
    if replay:
        cases = [json.load(open(replay))['case']]
        ncorpus = 0
    else:
        cases += list(prop.generate(rng, n, tier))
    obs = run_impl_all(prop, cases)
    # a replay file written by one of the DIRECTED scenarios (extra_checks) holds a description of that scenario, not a case
    # of the generator's DSL: re-run the directed scenarios and report those that fail (the same seed regenerates the same ones)
    directed_replay = None
    if replay and obs and isinstance(obs[0], dict) and '__driver_error__' in obs[0] and not str(obs[0]['__driver_error__']).startswith('the implementation did not finish'):
        directed_replay = cases[0]
        cases, obs = [], []
    failures = []
    hist = {}
    seen = set()
    nontrivial = 0
    terms, term_idx = [], []
    for i, (c, o) in enumerate(zip(cases, obs)):
        if isinstance(o, dict) and '__skipped_after_hangs__' in o:
            continue
        if isinstance(o, dict) and '__driver_error__' in o:
            msg = o['__driver_error__']
            failures.append(Failure(c, o, msg if msg.startswith('the implementation did not finish') else 'harness driver error: ' + msg))
            continue
        try:
            cl = prop.oracle(c, o)
            if cl:
                failures.append(Failure(c, o, cl))
            for lab in prop.histogram(c, o):
                hist[lab] = hist.get(lab, 0) + 1
            k = prop.key(c, o)
            if k not in seen:
                seen.add(k)
                if prop.nontrivial(c, o):
                    nontrivial += 1
            t = prop.coq_case(c, o)
        except Exception as e:     # an observation the harness cannot interpret: fail closed on this case
            failures.append(Failure(c, o, f'the observation could not be interpreted ({type(e).__name__}: {e}); '
                                          'the implementation behaved in a way the harness does not expect'))
            continue
        if t is not None:
            terms.append(t)
            term_idx.append(i)
    mismatches = []
    if build_ok and terms:
        mism, errors = eval_cases(pid, prop.coq_header, prop.case_type, prop.check_fn, terms,
                                  shard=prop.shard)
        for k, err in errors:
            broken.append({'kind': 'correspondence', 'what': f'cases shard {k} did not evaluate: {err[-600:]}'})
        mismatches = [term_idx[j] for j in mism]
    ctx = {'tier': tier, 'seed': seed, 'rng': rng, 'build_ok': build_ok, 'notes': notes,
           'hist': hist, 'extra_evals': 0, 'extra_nontrivial': 0, 'exhaustive': [], 'broken': broken}
    if not replay or directed_replay is not None:
        # the scenarios of extra_checks run in this process: a watchdog turns a hang or runaway loop of the implementation
        # inside one of them into a reported failure instead of a check that never ends
        import signal

        class _ExtraChecksHang(Exception):
            pass

        def _alarm(signum, frame):
            raise _ExtraChecksHang()
        limit = 900 if tier == 'quick' else 5400
        old_handler = signal.signal(signal.SIGALRM, _alarm)
        signal.alarm(limit)
        try:
            extra = list(prop.extra_checks(ctx))
            if directed_replay is not None:
                same = [f for f in extra if f.case == directed_replay]
                extra = same or extra
            failures += extra
        except _ExtraChecksHang:
            failures.append(Failure({'kind': 'extra_checks'}, {'limit_s': limit},
                                    f'a scenario of the directed checks did not finish within {limit} s on the implementation (hang or runaway loop)'))
        finally:
            signal.alarm(0)
            signal.signal(signal.SIGALRM, old_handler)

    # ---- 5. outcome
    def report_failure(f, kind):
        fid = prop.classify(f.case, f.observed, f.clause)
        if fid and any(k['id'] == fid for k in known):
            if fid not in known_printed:
                kf = [k for k in known if k['id'] == fid][0]
                known_printed[fid] = f'KNOWN-FINDING: property={pid} {kf["what"]}'
            return
        path = write_replay(pid, {'property': pid, 'kind': kind, 'case': f.case,
                                  'observed': f.observed, 'clause': f.clause,
                                  'replay_cmd': f'bin/check {pid} quick --replay <this file>'})
        lines.append(f'VIOLATION property={pid} replay={path}')

    reported = set()
    for f in failures:
        kk = (f.clause, prop.classify(f.case, f.observed, f.clause))
        if kk in reported:
            continue
        reported.add(kk)
        report_failure(f, 'oracle')
    fail_idx = {id(f.case) for f in failures}
    unexplained = [i for i in mismatches if id(cases[i]) not in fail_idx]
    if unexplained:
        i = unexplained[0]
        # try to shrink while the mismatch persists is model-side only; record the case
        shown = None
        st = prop.coq_show(cases[i], obs[i])
        if st and build_ok:
            shown = eval_show(pid, prop.coq_header, st)
        found = [f for f in failures]
        path = write_replay(pid, {'property': pid, 'kind': 'correspondence',
                                  'what': f'model and implementation differ on {len(unexplained)} of {len(terms)} cases '
                                          f'(correspondence check {prop.check_fn} in {prop.coq_header.strip().splitlines()[0]})',
                                  'case': cases[i], 'observed': obs[i], 'model': shown,
                                  'all_mismatching_cases': [cases[j] for j in unexplained[:20]],
                                  'replay_cmd': f'bin/check {pid} quick --replay <this file>'})
        if not lines:
            lines.append(f'VIOLATION property={pid} replay={path} no-failing-input-found')
        else:
            notes.append(f'correspondence also broken: {path}')
    if broken and not lines:
        path = write_replay(pid, {'property': pid, 'kind': 'broken-obligation', 'broken': broken,
                                  'note': 'no failing input found by the search on the implementation'})
        lines.append(f'VIOLATION property={pid} replay={path} no-failing-input-found')
    elif broken:
        notes.append('broken obligations: ' + json.dumps(broken)[:1500])

    for v in known_printed.values():
        print(v)
    for l in lines:
        print(l)

    samples = []
    for c, o in list(zip(cases, obs))[ncorpus:ncorpus + 3] + list(zip(cases, obs))[:1]:
        samples.append({'case': c, 'observed': o})
    evals = len(cases) + ctx['extra_evals']
    cov = {
        'obligations': obligations, 'discharged': discharged if build_ok else 0,
        'checker_cmd': f'make -C /verif/coq props/{mod}.vo  (coqc 8.16.1, full .vo build) + Print Assumptions on {len(theorems)} theorems',
        'trusted_base': ['Coq 8.16.1 kernel and vm_compute', 'tools/gen_facts.py (translator)',
                         'harness (case generators, implementation drivers, Coq literal printer)',
                         'hand transcription in coq/model tied to the code by the correspondence only']
                        + list(prop.trusted),
        'theorems': theorems, 'axioms_reported': axioms,
        'evaluations': evals, 'distinct_nontrivial': nontrivial + ctx['extra_nontrivial'],
        'rule': prop.rule, 'samples': _shorten(json.loads(json.dumps(samples, default=str))[:4]),
        'traces_validated_against_impl': len(terms),
        'correspondence_mismatches': len(mismatches),
        'oracle_failures': len(failures),
        'known_findings_seen': sorted(known_printed),
        'corpus_cases': ncorpus, 'histogram': dict(sorted(hist.items())),
        'exhaustive_sweeps': ctx['exhaustive'],
        'ast_facts_unlocated': (json.load(open(COQ + '/gen/unlocated.json')) if os.path.exists(COQ + '/gen/unlocated.json') else []),
        'notes': notes,
    }
    if ctx['exhaustive']:
        cov['exhaustive'] = True
    ev = {'property_id': pid, 'tier': tier, 'seed': int(seed), 'level': 'proof', 'coverage': cov,
          'assumptions': list(prop.assumptions), 'wall_s': round(time.time() - t0, 2),
          'violations': len(lines)}
    with open(f'{VERIF}/evidence/{pid}.json', 'w') as f:
        json.dump(ev, f, indent=1, default=str)
    if replay and directed_replay is not None:
        print(json.dumps({'case': directed_replay, 'directed_scenarios_rerun': True,
                          'failing': [{'case': f.case, 'observed': f.observed, 'clause': f.clause} for f in failures][:3]}, default=str)[:3000])
    elif replay:
        print(json.dumps({'case': cases[0], 'observed': obs[0],
                          'oracle': [f.clause for f in failures],
                          'model_mismatch': bool(mismatches)}, default=str)[:3000])
    return 1 if lines else 0
