"""C03 - any handler outcome yields one well-formed reply; the session survives (model/Handler.v)."""
import asyncio, json
from fractions import Fraction
from harness.core import Prop, c_Z, c_Q, c_bool, c_list
from harness import jsonvals as jv, sessions

KINDS = ['ret', 'ret', 'retbad', 'rpc', 'proto', 'other', 'overrun', 'ret', 'rpc']


def run_case(case):
    from aiorpcx import session, jsonrpc, curio
    loop = sessions.new_loop()
    try:
        beh = case['reqs']
        hook = []

        class S(session.RPCSession):
            processing_timeout = 10.0
            cost_decay_per_sec = 0

            def on_disconnect_due_to_excessive_session_cost(self):
                hook.append(loop.time())

            async def handle_request(self, request):
                if request.method == 'ping':
                    return 'pong'
                b = beh[int(request.method[1:])]
                await curio.sleep(b['delay'])
                k = b['kind']
                if k == 'ret':
                    return jv.from_plain(b['value'])
                if k == 'retbad':
                    how = b.get('how', 0)
                    if how == 3:          # JSON-like, but nested far beyond what the encoder can recurse into
                        deep = []
                        for _ in range(100000):
                            deep = [deep]
                        return deep
                    if how == 4:          # a circular structure
                        circ = []
                        circ.append(circ)
                        return circ
                    return {1, 2} if how == 0 else (10 ** 5000 if how == 1 else object())
                if k == 'rpc':
                    raise jsonrpc.RPCError(b['code'], b['msg'], cost=b['cost'])
                if k == 'proto':
                    raise jsonrpc.ProtocolError(b['code'], b['msg'])
                if k == 'other':
                    exc = [KeyError('boom'), TimeoutError('slow backend'), asyncio.TimeoutError(), OSError(5, 'io'),
                           RecursionError('deep'), ValueError('v'), MemoryError()][b.get('which', 0)]
                    raise exc
                if k == 'overrun':
                    # (before overrunning, the handler may have used - and handled - a timeout of its own)
                    inner = b.get('inner', 0)
                    if inner == 1:
                        async with curio.ignore_after(0.01):
                            await curio.sleep(1)
                    elif inner == 2:
                        try:
                            async with curio.timeout_after(0.01):
                                await curio.sleep(1)
                        except curio.TaskTimeout:
                            pass
                    elif inner == 3:
                        # a block of the handler's own whose deadline is LATER than the processing deadline, with a quick inner block
                        # entered and left inside it (a poll; a notification sent to the peer): the processing deadline still applies
                        async with curio.timeout_after(40):
                            async with curio.ignore_after(5):
                                await curio.sleep(0.001)
                            await curio.sleep(50)
                        return 'late'
                    elif inner == 4:
                        async with curio.ignore_after(45):
                            await self.send_notification('progress', [1])
                            await curio.sleep(50)
                        return 'late'
                    await curio.sleep(50)
                    return 'late'
                if k == 'discval':
                    raise session.ReplyAndDisconnect(jv.from_plain(b['value']))
                if k == 'discerr':
                    raise session.ReplyAndDisconnect(jsonrpc.RPCError(b['code'], b['msg']))
                if k == 'discbad':
                    raise session.ReplyAndDisconnect({3})
                raise AssertionError(k)

        # (sockbuf: only so many bytes of a write leave at once - a big reply sits in the transport's queue for a while)
        if case.get('nolimit'):
            S.cost_hard_limit = 0           # a session that is never refused service (what connect_rs() sessions are): the cost is still kept
        proto, ft, s = sessions.attach(S, kind='server', sockbuf=case.get('sockbuf'))

        async def main():
            singles = []
            batch = []
            for i, b in enumerate(beh):
                m = {'jsonrpc': '2.0', 'method': 'h%d' % i, 'params': []}
                if not b['notification']:
                    m['id'] = 100 + i
                if b.get('refused'):
                    continue
                (batch if b.get('in_batch') else singles).append(m)
            for m in singles:
                proto.data_received(json.dumps(m).encode() + b'\n')
            if batch:
                proto.data_received(json.dumps(batch).encode() + b'\n')
            await asyncio.sleep(0.001)
            for i, b in enumerate(beh):
                if b.get('refused'):
                    await asyncio.sleep(b['delay'])
                    s.bump_cost(10 ** 9)      # evaluated cost far above the hard limit: the limiter refuses
                    proto.data_received(json.dumps({'jsonrpc': '2.0', 'method': 'h%d' % i, 'params': [], 'id': 100 + i}).encode() + b'\n')
            await asyncio.sleep(60.0)
            n0 = len(ft.written)
            closed_before_probe = ft.closing or ft.lost
            if not closed_before_probe:
                proto.data_received(b'{"jsonrpc":"2.0","method":"ping","id":4242}\n')
                await asyncio.sleep(5.0)
            probe = any(isinstance(x, dict) and x.get('id') == 4242 and x.get('result') == 'pong'
                        for x in sessions.sent_messages(ft, n0))
            msgs = sessions.sent_messages(ft, 0)
            entries = []
            for m in msgs[:None]:
                for e in (m if isinstance(m, list) else [m]):
                    if isinstance(e, dict) and e.get('id') != 4242:
                        entries.append(e)
            return {'entries': jv.to_plain(entries), 'errors': s.errors, 'cost': s.cost, 'closed': closed_before_probe,
                    'probe': probe, 'hook': len(hook), 'loop_alive': not proto._process_messages_task.done(),
                    'unhandled': loop.unhandled[:3]}
        return loop.run_until_complete(main())
    finally:
        sessions.close_loop(loop)


def outcome_term(b):
    k = b['kind']
    fp = jv.from_plain
    if k == 'ret':
        return f"(ORet {jv.json_term(fp(b['value']))})"
    if k == 'retbad':
        return 'ORetBad'
    if k == 'rpc':
        return f"(ORPC {c_Z(b['code'])} {jv.text_term(b['msg'])} {c_Q(Fraction(b['cost']))})"
    if k == 'proto':
        return f"(OProto {c_Z(b['code'])} {jv.text_term(b['msg'])})"
    if k == 'other':
        return 'OOther'
    if k == 'overrun':
        return 'OOverrun'
    if k == 'discval':
        return f"(ODiscVal {jv.json_term(fp(b['value']))})"
    if k == 'discerr':
        return f"(ODiscErr {c_Z(b['code'])} {jv.text_term(b['msg'])})"
    if k == 'discbad':
        return 'ODiscBad'
    if k == 'refused':
        return 'ORefused'


def sig_term(e):
    if e is None:
        return 'SOther'
    if 'error' in e and isinstance(e['error'], dict):
        return f"(SError {jv.json_term(e.get('id'))} {jv.json_term(e['error'].get('code'))})"
    if 'result' in e:
        return f"(SResult {jv.json_term(e.get('id'))} {jv.json_term(e['result'])})"
    return 'SOther'


class C03(Prop):
    id = 'C03'
    coq_header = 'From Coq Require Import QArith.\nFrom AV Require Import Base Utf8 Json Codec Conn Handler.'
    case_type = 'list (option json * outcome) * list esig * Z * bool'
    check_fn = 'c03_ok'
    sizes = {'quick': 250, 'thorough': 4000}
    shard = 50
    rule = ('up to 12 concurrent requests, notifications and batch members on a real serving RPCSession (virtual time), each '
            'with one behaviour (return JSON value / return non-encodable value (set, 5000-digit int, object) / raise RPCError '
            'with code, message, cost / raise ProtocolError / raise KeyError / sleep past processing_timeout / '
            'ReplyAndDisconnect(value | RPCError | non-encodable) / refused by a zero limit) and distinct completion times in '
            'random order; then a probe request; compared with the model: reply per request (id, value | error code), error '
            'count, connection closed; non-trivial = >= 3 requests with >= 2 different failure kinds; distinct = distinct case')
    trusted = ('harness/vloop.py, harness/sessions.py (fake transport)',)

    def corpus(self):
        return [{'reqs': [{'kind': 'retbad', 'how': 0, 'delay': 0.1, 'notification': False},
                          {'kind': 'ret', 'value': 5, 'delay': 0.2, 'notification': False}]},
                {'reqs': [{'kind': 'retbad', 'how': 1, 'delay': 0.1, 'notification': False, 'in_batch': True},
                          {'kind': 'ret', 'value': 'x', 'delay': 0.3, 'notification': False, 'in_batch': True}]},
                {'reqs': [{'kind': 'discbad', 'delay': 0.5, 'notification': False}]},
                {'reqs': [{'kind': 'ret', 'value': 1, 'delay': 0.1, 'notification': False},
                          {'kind': 'discval', 'value': 'x' * 200000, 'delay': 0.5, 'notification': False, 'in_batch': False}],
                 'sockbuf': 65536},
                {'nolimit': True, 'reqs': [{'kind': 'rpc', 'code': 5, 'msg': 'no', 'cost': 25.0, 'delay': 0.1, 'notification': False},
                                           {'kind': 'other', 'which': 0, 'delay': 0.2, 'notification': False},
                                           {'kind': 'proto', 'code': -5, 'msg': 'p', 'delay': 0.3, 'notification': False}]},
                {'reqs': [{'kind': 'overrun', 'inner': 3, 'delay': 0.1, 'notification': False},
                          {'kind': 'ret', 'value': jv.to_plain(1), 'delay': 0.3, 'notification': False}]},
                {'reqs': [{'kind': 'overrun', 'inner': 4, 'delay': 0.1, 'notification': False},
                          {'kind': 'overrun', 'inner': 3, 'delay': 0.2, 'notification': False, 'in_batch': True}]},
                {'reqs': [{'kind': 'overrun', 'inner': 1, 'delay': 0.1, 'notification': False},
                          {'kind': 'overrun', 'inner': 2, 'delay': 0.2, 'notification': False, 'in_batch': True},
                          {'kind': 'ret', 'value': 5, 'delay': 0.3, 'notification': False, 'in_batch': True}]}]

    def generate(self, rng, n, tier):
        for _ in range(n):
            k = rng.randrange(1, 12)
            delays = rng.sample([x / 10 for x in range(1, 40)], k)
            reqs = []
            for i in range(k):
                kind = rng.choice(KINDS)
                b = {'kind': kind, 'delay': delays[i], 'notification': rng.random() < 0.2, 'in_batch': rng.random() < 0.3}
                if kind == 'ret':
                    b['value'] = jv.to_plain(jv.gen_value(rng, 2))
                elif kind == 'retbad':
                    b['how'] = rng.randrange(5)
                elif kind == 'other':
                    b['which'] = rng.randrange(7)
                elif kind == 'overrun':
                    b['inner'] = rng.choice([0, 1, 2, 3, 4])
                elif kind in ('rpc', 'proto'):
                    b.update({'code': rng.choice([1, -5, -32000, 7777]), 'msg': rng.choice(['bad', '', 'é\n']),
                              'cost': rng.choice([0.0, 0.0, 25.0, 50.0])})
                reqs.append(b)
            if rng.random() < 0.25:
                kind = rng.choice(['discval', 'discerr', 'discbad', 'refused'])
                b = {'kind': kind, 'delay': 5.0, 'notification': False, 'in_batch': False}
                for x in reqs:
                    if x['kind'] == 'overrun':
                        x['kind'] = 'other'
                if kind == 'discval':
                    b['value'] = jv.to_plain(rng.choice([1, 'bye', None]))
                    if rng.random() < 0.4:
                        # a reply much larger than the socket takes at once, then the disconnect
                        b['value'] = jv.to_plain('x' * 200000)
                if kind == 'discerr':
                    b.update({'code': 9, 'msg': 'go away'})
                if kind == 'refused':
                    b['refused'] = True
                reqs.append(b)
            case = {'reqs': reqs}
            if any(isinstance(x.get('value'), str) and len(x['value']) > 100000 for x in reqs):
                case['sockbuf'] = 65536
            if not any(x['kind'] == 'refused' for x in reqs) and rng.random() < 0.25:
                case['nolimit'] = True
            yield case

    def run_impl(self, case):
        return run_case(case)

    def coq_case(self, case, obs):
        if case.get('sockbuf'):
            return None          # a 200 kB literal per case: the oracle decides
        order = sorted(range(len(case['reqs'])), key=lambda i: (10.0 + i * 1e-6) if case['reqs'][i]['kind'] == 'overrun' else case['reqs'][i]['delay'])
        entries = jv.from_plain(obs['entries'])
        by_id = {}
        for e in entries:
            by_id.setdefault(e.get('id'), []).append(e)
        xs, sigs = [], []
        for i in order:
            b = case['reqs'][i]
            rid = None if b['notification'] else 100 + i
            xs.append(f"({'None' if rid is None else '(Some (JInt %d))' % rid}, {outcome_term(b)})")
            if rid is not None:
                es = by_id.get(rid, [])
                sigs.append(sig_term(es[0]) if len(es) == 1 else 'SOther')
        return (f"({c_list(xs, 'option json * outcome')}, {c_list(sigs, 'esig')}, {c_Z(obs['errors'])}, "
                f"{c_bool(obs['closed'])})")

    def oracle(self, case, obs):
        entries = jv.from_plain(obs['entries'])
        ids = [e.get('id') for e in entries]
        failed = 0
        disc = False
        for i, b in enumerate(case['reqs']):
            rid = 100 + i
            k = b['kind']
            is_fail = k not in ('ret', 'discval') and not (k in ('retbad', 'discbad') and b['notification'])
            if is_fail:
                failed += 1
            if k in ('discval', 'discerr', 'discbad', 'refused'):
                disc = True
            if b['notification']:
                if rid in ids:
                    return 'a notification was answered'
                continue
            es = [e for e in entries if e.get('id') == rid]
            if len(es) != 1:
                return f'request got {len(es)} responses instead of exactly one'
            e = es[0]
            err = e.get('error')
            if k in ('ret', 'discval'):
                if 'result' not in e or not same(e['result'], jv.from_plain(b['value'])):
                    return 'the returned value did not reach the caller'
            elif k in ('rpc', 'proto', 'discerr'):
                if not (isinstance(err, dict) and err.get('code') == b['code'] and err.get('message') == b['msg']):
                    return "the handler's own error code and message did not reach the caller"
            elif k in ('retbad', 'other', 'discbad'):
                if not (isinstance(err, dict) and err.get('code') == -32603):
                    return 'failure not reported as internal error (-32603)'
            elif k == 'overrun':
                if not (isinstance(err, dict) and err.get('code') == -102):
                    return 'overrun not reported as server busy (-102)'
            elif k == 'refused':
                if not (isinstance(err, dict) and err.get('code') == -101):
                    return 'refusal not reported as excessive resource usage (-101)'
        if obs['errors'] != failed:
            return 'error count does not equal the number of failed requests'
        base = 100.0
        want = sum(base + (b.get('cost', 0.0) if b['kind'] == 'rpc' else 0.0) for b in case['reqs']
                   if b['kind'] not in ('ret', 'discval') and not (b['kind'] in ('retbad', 'discbad') and b['notification']))
        if not any(b['kind'] == 'refused' for b in case['reqs']) and not (want - 1e-6 <= obs['cost'] <= want + 5.0):
            return 'session cost does not reflect base error cost plus error-specific cost'
        if disc:
            if not obs['closed']:
                return 'reply-and-disconnect / refusal did not close the connection'
        else:
            if obs['closed']:
                return 'the connection was closed although no handler asked for it'
            if not obs['probe']:
                return 'after the failures a later request was not answered'
        return None

    def extra_checks(self, ctx):
        """failures on a long-lived connection: the cost decays with (wall-clock) time, is fully refunded after a quiet hour,
        and every failure after that is charged again (with the session's default decay; the wall clock is a fake)"""
        from harness.core import Failure
        from aiorpcx import session, jsonrpc
        out = []
        for transport in ('rs', 'us'):
            loop = sessions.new_loop()

            class Clock:
                t = 1.7e9

                @staticmethod
                def time():
                    return Clock.t
            real = session.time
            session.time = Clock
            try:
                class S(session.RPCSession):
                    async def handle_request(self, request):
                        if request.method == 'rpc':
                            raise jsonrpc.RPCError(7, 'no', cost=25.0)
                        raise KeyError('boom')
                proto, ft, s = sessions.attach(S, 'server', transport)

                async def main():
                    await sessions.settle(3)
                    steps = []
                    rid = [0]
                    last = [Clock.t]

                    async def fail(method):
                        rid[0] += 1
                        c0, e0 = s.cost, s.errors
                        proto.data_received(json.dumps({'jsonrpc': '2.0', 'method': method, 'id': rid[0]}).encode() + b'\n')
                        await asyncio.sleep(0.05)
                        steps.append({'at': Clock.t - 1.7e9, 'method': method, 'd_cost': s.cost - c0, 'd_errors': s.errors - e0,
                                      'decayed_at_most': (Clock.t - last[0]) * s.cost_decay_per_sec})
                        last[0] = Clock.t
                    await fail('rpc')
                    await fail('other')
                    Clock.t += 3600.0               # a quiet hour
                    s.recalc_concurrency()          # housekeeping
                    last[0] = Clock.t
                    steps.append({'at': Clock.t - 1.7e9, 'cost_after_quiet_hour': s.cost})
                    for m in ('rpc', 'other', 'other'):
                        Clock.t += 2.0
                        await fail(m)
                    Clock.t += 400.0
                    await fail('rpc')
                    return steps
                steps = loop.run_until_complete(main())
            finally:
                session.time = real
                sessions.close_loop(loop)
            ctx['extra_evals'] += 1
            for st in steps:
                if 'method' in st and (st['d_errors'] != 1 or st['d_cost'] < 100.0 - st['decayed_at_most'] - 1e-6):
                    out.append(Failure({'kind': 'long_lived', 'transport': transport}, {'steps': steps},
                                       f"a failed request at t={st['at']:.0f} s raised the error count by {st['d_errors']} and the cost by "
                                       f"{st['d_cost']:.3f} (each failed request raises the error count by one and the cost by at least the base error cost; "
                                       f"at most {st['decayed_at_most']:.2f} can have decayed meanwhile)"))
                    break
        ctx['notes'].append('failures on a long-lived connection (decay on, fake wall clock: a quiet hour, then failures again)')
        return out

    def nontrivial(self, case, obs):
        kinds = {b['kind'] for b in case['reqs'] if b['kind'] != 'ret'}
        return len(case['reqs']) >= 3 and len(kinds) >= 2

    def histogram(self, case, obs):
        return ['n=%d' % min(len(case['reqs']), 12)] + ['kind=' + b['kind'] for b in case['reqs']]


def same(a, b):
    from harness.props.c04 import norm
    return norm(a) == norm(b)


def end_to_end(transport):
    """a server session and a CLIENT session of the library wired back to back: what the caller of send_request / send_batch
    gets for each handler behaviour ("the caller receives ... the value, the handler's own code and message")"""
    from aiorpcx import session, jsonrpc
    loop = sessions.new_loop()
    try:
        class Srv(session.RPCSession):
            cost_hard_limit = 0

            async def handle_request(self, request):
                a = request.args
                if request.method == 'val':
                    return a[0]
                if request.method == 'err':
                    raise jsonrpc.RPCError(a[0], a[1])
                if request.method == 'boom':
                    raise ValueError('boom')
                if request.method == 'bad':
                    return {1, 2}
                if request.method == 'bye':
                    raise session.ReplyAndDisconnect(jsonrpc.RPCError(a[0], a[1]))
        sp, sft, srv = sessions.attach(Srv, 'server', transport)
        cp, cft, cli = sessions.attach(session.RPCSession, 'client', transport)
        pos = {'s': 0, 'c': 0}

        async def pump():
            while True:
                while pos['c'] < len(cft.written):
                    sp.data_received(cft.written[pos['c']])
                    pos['c'] += 1
                while pos['s'] < len(sft.written):
                    cp.data_received(sft.written[pos['s']])
                    pos['s'] += 1
                await asyncio.sleep(0.01)
        calls = [('val', [5]), ('val', ['']), ('val', [None]), ('val', [[1, {'a': 0}]]), ('err', [5, 'no']), ('err', [5, '']), ('err', [0, 'zero']),
                 ('err', [-32000, 'x' * 300]), ('err', [1, 'é\n\u2028']), ('err', [10 ** 20, ' ']), ('boom', []), ('bad', [])]
        res = {}

        async def one(i, m, a):
            try:
                res[str(i)] = ['value', await cli.send_request(m, a)]
            except jsonrpc.RPCError as e:
                res[str(i)] = ['RPCError', e.code, e.message]
            except jsonrpc.ProtocolError as e:
                res[str(i)] = ['ProtocolError', e.code, e.message]
            except asyncio.CancelledError:
                res[str(i)] = ['cancelled']
            except Exception as e:
                res[str(i)] = ['other', type(e).__name__]

        async def batch():
            try:
                async with cli.send_batch() as b:
                    for m, a in calls:
                        b.add_request(m, a)
                res['batch'] = [['RPCError', r.code, r.message] if isinstance(r, jsonrpc.RPCError) else ['value', r] for r in b.results]
            except asyncio.CancelledError:
                res['batch'] = ['cancelled']
            except Exception as e:
                res['batch'] = ['other', type(e).__name__, str(e)[:80]]

        async def main():
            await sessions.settle(3)
            pt = loop.create_task(pump())
            ts = [loop.create_task(one(i, m, a)) for i, (m, a) in enumerate(calls)] + [loop.create_task(batch())]
            await asyncio.wait(ts, timeout=20)
            t2 = loop.create_task(one('bye', 'bye', [9, '']))
            await asyncio.wait([t2], timeout=20)
            for t in ts + [t2, pt]:
                t.cancel()
            return dict(res)
        got = loop.run_until_complete(main())
    finally:
        sessions.close_loop(loop)
    want = {}
    for i, (m, a) in enumerate(calls):
        want[str(i)] = (['value', a[0]] if m == 'val' else ['RPCError', a[0], a[1]] if m == 'err' else ['RPCError', -32603, 'internal server error'])
    want['batch'] = [want[str(i)] for i in range(len(calls))]
    want['bye'] = ['RPCError', 9, '']
    return got, want


def duplicate_id_batches(transport):
    """batches whose member requests share an id (a peer may number them all 0): still one batch response, one entry per member"""
    from aiorpcx import session
    loop = sessions.new_loop()
    try:
        class Srv(session.RPCSession):
            async def handle_request(self, request):
                if request.method == 'fail':
                    raise ValueError('x')
                await asyncio.sleep(0.01 * len(request.args))
                return 'pong'
        sp, sft, srv = sessions.attach(Srv, 'server', transport)
        batches = [[(0, 'ping'), (0, 'ping')], [('x', 'ping'), ('x', 'fail'), ('x', 'ping')], [(1, 'ping'), (1.0, 'ping')], [(None, 'ping'), (7, 'ping'), (7, 'fail')],
                   [(3, 'ping')] * 5]

        async def main():
            await sessions.settle(3)
            out = []
            for b in batches:
                n0 = len(sft.written)
                sp.data_received(json.dumps([{'jsonrpc': '2.0', 'method': m, 'id': i} for i, m in b]).encode() + b'\n')
                await asyncio.sleep(1.0)
                msgs = sessions.sent_messages(sft, n0)
                out.append({'batch': [[i, m] for i, m in b], 'responses': len(msgs),
                            'entries': len(msgs[0]) if msgs and isinstance(msgs[0], list) else None})
            return out
        return loop.run_until_complete(main())
    finally:
        sessions.close_loop(loop)


_c03_extra = C03.extra_checks


def _extra_checks(self, ctx):
    from harness.core import Failure
    out = list(_c03_extra(self, ctx))
    n = 0
    for transport in ('rs', 'us'):
        got, want = end_to_end(transport)
        n += len(want)
        bad = {k: [got.get(k), want[k]] for k in want if got.get(k) != want[k]}
        if bad:
            out.append(Failure({'kind': 'end_to_end', 'transport': transport}, {'differences_got_vs_expected': jv.to_plain(bad)},
                               "through the library's own client session the caller did not receive the value / the handler's own code and message "
                               f"for {sorted(bad)} (of {len(want)} calls, one batch of them included)"))
        for o in duplicate_id_batches(transport):
            n += 1
            # (members that are notifications - id null under 2.0 - get no entry)
            members = sum(1 for i, m in o['batch'] if i is not None)
            if o['responses'] != 1 or o['entries'] != members:
                out.append(Failure({'kind': 'duplicate_id_batch', 'transport': transport, 'batch': o['batch']}, o,
                                   f"a batch whose members share an id got {o['responses']} responses with {o['entries']} entries; exactly one batch response with one entry per request member ({members})"))
                break
    ctx['extra_evals'] += n
    ctx['notes'].append(f"server and client session of the library wired back to back (every handler behaviour, alone and in one batch) and batches with duplicate ids: {n} outcomes")
    return out


C03.extra_checks = _extra_checks
PROP = C03()
