"""C10 - TaskGroup join follows its wait policy and reports the first finisher (model/TaskGroup.v)."""
from harness.core import Prop
from harness.props import tg_common as tc


def analyse(case, obs):
    """what the real run shows: finishing order of the non-daemon members, the members consumed by
    join (from successive snapshots of _done), and the state at the label where join left its loop"""
    daemon = {i + 1: m['daemon'] for i, m in enumerate(case['members'])}
    finish_order, consumed, prev_dq, leave, spawned = [], [], [], None, []
    already = set()
    cancel_pending = False
    for idx, (label, snap) in enumerate(obs['trace']):
        if label[0] == 'cancelJ':
            cancel_pending = True
        if label[0] == 'spawn':
            spawned.append(label[1])
            daemon.setdefault(label[1], label[2])
            if len(label) > 3 and label[3] is not None:
                already.add(label[1])          # added when it had finished: it enters _done at once
        if label[0] == 'finish' and not daemon.get(label[1], False):
            finish_order.append(label[1])
        if snap is None:
            continue
        dq = snap['doneq']
        if label[0] == 'run' and label[1] == ['J']:
            k = len(prev_dq) - len(dq)
            if k > 0 and prev_dq[k:] == dq:
                consumed += prev_dq[:k]
            entered = len(label) > 3 and label[3]
            if leave is None and entered and (label[2] or snap['jdone']):
                leave = {'snap': snap, 'index': idx, 'spawned': list(spawned), 'consumed': list(consumed),
                         'by_cancel': cancel_pending}
            cancel_pending = False
        prev_dq = dq
    return {'finish_order': finish_order, 'consumed': consumed, 'doneq': prev_dq, 'leave': leave, 'daemon': daemon, 'already': already}


class C10(Prop):
    id = 'C10'
    coq_header = tc.HEADER
    case_type = tc.CASE_TYPE
    check_fn = 'tg_ok'
    sizes = {'quick': 700, 'thorough': 12000}
    shard = 50
    rule = ('the programs of C09 (real TaskGroup on a single-step loop, 1-4 members, 0-2 daemons, four policies, three ways of '
            'joining, members finishing with None / value / exception / cancellation in random order, joiner cancelled at random '
            'instants; retain on or off; already finished tasks handed to the constructor and to add_task) with the per-handle comparison of group state, ready queue and cancellation requests against the model; '
            'the C10 oracle is computed from the REAL run alone: members consumed by join (successive snapshots of _done) against '
            'the finishing order, completed/result/exception against the first consumed member that counts, the state at the '
            'label where join left its loop against the policy, the cancellation requests issued there, the exception of the '
            'joining task; non-trivial = join left its loop with >= 2 non-daemon members; distinct = distinct program')
    trusted = ('harness/steploop.py (single-step loop, pure-Python Task so that handles expose their task)',)

    def corpus(self):
        mk = lambda pol, acts: {'policy': pol, 'mode': 'join', 'members': [{'react': 'reraise', 'daemon': False}] * 3,
                                'actions': [['start'], ['tick']] + acts + [['tick']] * 14}
        return [mk('object', [['finish', 0, ['ret', None]], ['tick'], ['tick'], ['finish', 0, ['ret', 1]]]),
                mk('any', [['finish', 1, ['ret', None]]]),
                mk('all', [['finish', 2, ['ret', 1]], ['tick'], ['finish', 0, ['exc']]]),
                mk('none', []),
                dict(mk('all', [['addfin', False, 'RetVal'], ['tick'], ['finish', 0, ['ret', 1]], ['tick'], ['addfin', False, 'RetNone']]),
                     retain=True, init=[[False, 'RetVal'], [True, 'RetVal'], [False, 'Exc']]),
                dict(mk('object', [['finish', 0, ['ret', None]], ['addfin', False, 'RetNone'], ['tick'], ['addfin', True, 'Exc']]),
                     retain=False, init=[[False, 'RetNone']])]

    def generate(self, rng, n, tier):
        for _ in range(n):
            yield tc.gen_case(rng)

    def run_impl(self, case):
        return tc.run_case(case)

    def coq_case(self, case, obs):
        return tc.coq_case(case, obs)

    def coq_show(self, case, obs):
        t = tc.coq_case(case, obs)
        return None if t is None else f"let '(p, m, tr) := {t} in trace_firstbad (init p m) tr 0"

    def oracle(self, case, obs):
        a = analyse(case, obs)
        out = obs['outcomes']
        pol = case['policy']
        app = next((sn['appconsumed'] for _, sn in reversed(obs['trace']) if sn is not None), [])
        seq = app + a['consumed'] + a['doneq']
        if len(set(seq)) != len(seq):
            return f'a member is yielded twice: consumed {a["consumed"]}, queued {a["doneq"]}'
        for _, sn in obs['trace']:
            if sn is not None and not sn['tasks_ok']:
                return (f'the tasks attribute is {sn["tasks"]}: not the non-daemon members '
                        f'{"added so far (retain)" if case.get("retain") else "still running"}')
        if obs.get('retained') is False:
            return 'retain: after join, tasks does not hold every non-daemon member'
        errs = [e for e in obs.get('loop_errors', ()) if 'never retrieved' not in e]
        if errs:
            return 'an exception escaped into the event loop: ' + errs[0][:200]
        je = obs.get('join_end')
        if je and je.get('joined') and not je.get('joiner_cancelled') and je.get('undone'):
            snap = obs['trace'][je['at'] - 1][1] or {}
            never = [t for t in je['undone'] if t not in snap.get('cancelreq', [])]
            if never:
                return (f'join stopped (joined is set) while members {never} were still running and had not even been sent a '
                        'cancellation: on stopping, all members still running are cancelled')
        if obs.get('refused_during_join'):
            return ('spawn() / add_task() was refused ("task group terminated") while join() was still cancelling and waiting for '
                    f'members: members added during join are members (refused: {obs["refused_during_join"]})')
        # members added when already finished enter _done at the instant of the addition; the others in finishing order
        seq = [t for t in seq if t not in a['already']]
        if seq != a['finish_order'][:len(seq)]:
            return f'members are not consumed in completion order: consumed+queued {seq}, finished {a["finish_order"]}'
        counts = lambda t: not (pol == 'object' and out.get(str(t)) == 'RetNone')
        first = next((t for t in a['consumed'] if counts(t)), None)
        if obs['completed'] != first:
            return f'completed is member {obs["completed"]}, the first consumed member that counts is {first} (consumed {a["consumed"]})'
        bad = lambda t: out.get(str(t)) in ('Exc', 'Canc')

        def stops(i):
            t = a['consumed'][i]
            return bad(t) or pol == 'any' or (pol == 'object' and any(counts(x) for x in a['consumed'][:i + 1]))
        for i in range(len(a['consumed']) - 1):
            if stops(i):
                return f'join went on consuming after member {a["consumed"][i]} although the policy {pol} says stop'
        if pol == 'none' and a['consumed']:
            return 'join consumed a member under the none policy'
        je = obs['join_end']
        lv = a['leave']
        if lv is not None and not lv['by_cancel']:
            cons = lv['consumed']
            stopped = bool(cons) and (bad(cons[-1]) or pol == 'any' or (pol == 'object' and any(counts(x) for x in cons)))
            sn = lv['snap']
            if pol != 'none' and not stopped and (sn['pending'] or sn['doneq']):
                return (f'join left its loop under policy {pol} without a reason: consumed {cons}, '
                        f'pending {sn["pending"]}, queued {sn["doneq"]}')
            left = [t for t in lv['spawned'] if t not in sn['finished'] and t not in sn['cancelreq']]
            if left:
                return f'on stopping, members {left} still running were not cancelled'
        if je and je['joiner_exc'] is not None:
            return f'join raised {je["joiner_exc"]}'
        pr = obs.get('props')
        if pr is not None:
            c = obs['completed']
            oc = out.get(str(c)) if c is not None else None
            want_exc = {'Exc': 'KeyError', 'Canc': 'CancelledError'}.get(oc)
            if pr['exception'] != ['val', want_exc]:
                return f'exception property is {pr["exception"]}, completed member {c} ended with {oc}'
            if c is None and pr['result'][0] != 'raises':
                return 'result property returned although no member completed'
            if oc in ('RetVal', 'RetNone') and pr['result'][0] != 'val':
                return f'result property raised {pr["result"]} although member {c} returned'
            if oc in ('Exc', 'Canc') and pr['result'] != ['raises', want_exc]:
                return f'result property gave {pr["result"]}, completed member {c} ended with {oc}'
        return None

    def nontrivial(self, case, obs):
        a = analyse(case, obs)
        return a['leave'] is not None and sum(1 for m in case['members'] if not m['daemon']) >= 2

    def histogram(self, case, obs):
        a = analyse(case, obs)
        h = ['policy=' + case['policy'], 'mode=' + case['mode'], 'consumed=%d' % len(a['consumed']),
             'left_loop' if a['leave'] else 'in_loop']
        h.append('retain' if case.get('retain') else 'no_retain')
        if a['already']:
            h.append('already_finished_member_added')
        if any(l[0] == 'appnext' for l, _ in obs['trace']):
            h.append('application_took_members_before_join')
        if obs['completed'] is not None:
            h.append('completed_' + str(obs['outcomes'].get(str(obs['completed']))))
        return h


def many_members(nm, retain, policy, first):
    """nm quick members spawned inside the block (they all finish before join looks at any of them): what completed / result /
    exception describe, and what iteration hands out"""
    import asyncio
    from aiorpcx import TaskGroup
    info = {}

    async def member(i):
        if i == 0 and first == 'raises':
            raise ValueError('first')
        return None if (i == 0 and first == 'none') else i + 1

    async def main():
        g = TaskGroup(wait=policy, retain=retain)
        tasks = []
        async with g:
            for i in range(nm):
                tasks.append(await g.spawn(member(i)))
        info['completed_is'] = tasks.index(g.completed) if g.completed in tasks else None
        info['exception'] = type(g.exception).__name__ if g.exception is not None else None
        # a second group, collected by iteration
        g2 = TaskGroup(retain=retain)
        tasks2 = [await g2.spawn(member(i + 1)) for i in range(nm)]
        await asyncio.sleep(0.01)
        got = []
        async for t in g2:
            got.append(tasks2.index(t))
        info['iterated'] = len(got)
        info['iterated_in_order_exactly_once'] = got == list(range(nm))
    loop = asyncio.new_event_loop()
    try:
        loop.run_until_complete(asyncio.wait_for(main(), 60))
    finally:
        loop.close()
    return info


def _extra_checks(self, ctx):
    from harness.core import Failure
    out, n = [], 0
    for nm in (2, 50, 1023, 1024, 1025, 1100, 3000):
        for retain in (False, True):
            for policy, first in ((all, 'value'), (all, 'raises'), (object, 'none'), (any, 'value')):
                o = many_members(nm, retain, policy, first)
                n += 1
                want_completed = 1 if (policy is object and first == 'none') else 0
                want_exc = 'ValueError' if first == 'raises' else None
                bad = None
                if o['completed_is'] != want_completed or o['exception'] != want_exc:
                    bad = (f"completed describes member #{o['completed_is']} (exception {o['exception']}); the first member that finished "
                           f"{'with a result that is not None ' if policy is object else ''}is #{want_completed} (exception {want_exc})")
                elif not o['iterated_in_order_exactly_once']:
                    bad = f"iteration yielded {o['iterated']} of {nm} members (each exactly once, in completion order, is required)"
                if bad:
                    out.append(Failure({'kind': 'many_members', 'members': nm, 'retain': retain, 'policy': getattr(policy, '__name__', str(policy)), 'first': first}, o,
                                       f'{nm} members that have all finished before join examines them: {bad}'))
                    break
            if len(out) >= 2:
                break
        if len(out) >= 2:
            break
    ctx['extra_evals'] += n
    ctx['notes'].append(f'groups of up to 3000 members that all finish before being collected (completed / exception / iteration): {n} runs')
    return out


C10.extra_checks = _extra_checks
PROP = C10()
