"""C20 - outgoing requests always get an outcome; adaptive in-flight cap (model/Recalc.v)."""
import asyncio, json
from fractions import Fraction
from harness.core import Prop, Failure, c_Z, c_Q
from harness import sessions


def recalc_once(current, trt, times):
    """the real _recalc_concurrency on a session whose limit is `current`"""
    from aiorpcx import session

    class T:
        kind = session.SessionKind.CLIENT

    async def main():
        s = session.RPCSession(T())
        s.target_response_time = trt
        s._outgoing_concurrency.set_target(current)
        s._req_times = list(times)
        s._recalc_concurrency()
        return s._outgoing_concurrency.max_concurrent, list(s._req_times)
    return asyncio.run(main())


def lowered_violation(hist):
    """a lowered limit takes effect as outstanding requests complete: after the limit went down while M
    permits existed (earlier reductions may not have taken effect yet), with k holders finished since and L
    the largest limit in force since, at most max(M - k, L) are in flight"""
    for i in range(1, len(hist)):
        if hist[i][3] < hist[i - 1][3]:
            M, c0, L = max(hist[i - 1][5], hist[i - 1][3]), hist[i][4], hist[i][3]
            for j in range(i, len(hist)):
                L = max(L, hist[j][3])
                k = hist[j][4] - c0
                if hist[j][1] > max(M - k, L):
                    return {'lowered_at': hist[i][0], 'from': M, 'at': hist[j][0], 'in_flight': hist[j][1],
                            'completed_since': k, 'largest_limit_since': L}
    return None


def workload(case):
    """callers against a scripted peer on a virtual-time loop; returns per-call outcomes and the
    in-flight / limit history"""
    from aiorpcx import session, jsonrpc, curio
    loop = sessions.new_loop()

    class Clock:                 # response times are measured with time.time(): give the session the virtual clock
        @staticmethod
        def time():
            return loop.time() + 1700000000.0      # wall clock and loop clock differ, as they do in reality
    saved_time = session.time
    session.time = Clock
    try:
        cfg = case['cfg']

        class S(session.RPCSession):
            sent_request_timeout = cfg['timeout']
            target_response_time = cfg['trt']
            recalibrate_count = cfg['recal']

            async def handle_request(self, request):
                # what the peer asks of us meanwhile (a notification whose handler takes its time) must not hold up our own requests
                await asyncio.sleep(case.get('notify_handler_time', 5.0))
                return None

        proto, ft, s = sessions.attach(S, kind='client')
        wtimes = {}          # caller index -> virtual time its request/batch was written
        orig_write = ft.write

        def write(data):
            for line in data.split(b'\n'):
                if line:
                    m = json.loads(line)
                    first = m[0] if isinstance(m, list) else m
                    wtimes[first['params'][0]] = loop.time()
            orig_write(data)
        ft.write = write
        samples = []          # every response time the session records for its recalibration

        class Rec(list):
            def append(self, x):
                samples.append(x)
                list.append(self, x)

            def extend(self, xs):
                xs = list(xs)
                samples.extend(xs)
                list.extend(self, xs)
        own_list = '_req_times' in vars(s)        # the response times of THIS session
        if own_list:
            s._req_times = Rec()
        conc = s._outgoing_concurrency
        orig_set = conc.set_target

        def set_target(n):
            orig_set(n)
            maxlimit[0] = max(maxlimit[0], conc.max_concurrent)
            limits_seen.add(conc.max_concurrent)
        conc.set_target = set_target
        limits_seen = {conc.max_concurrent}
        calls = {}
        hist = []           # (time, written-but-unanswered, max limit in force so far)
        answered = set()
        maxlimit = [s._outgoing_concurrency.max_concurrent]
        seen = [0]

        def peer_poll():
            # look at what was written; schedule the scripted replies
            msgs = sessions.sent_messages(ft, seen[0])
            seen[0] = len(ft.written)
            for m in msgs:
                members = m if isinstance(m, list) else [m]
                ids = [x['id'] for x in members if isinstance(x, dict) and 'id' in x]
                if not ids:
                    continue
                key = ids[0]
                beh = case['peer'][key % len(case['peer'])]
                for i in ids:
                    written[i] = loop.time()
                if beh[0] == 'never':
                    continue
                if beh[0] == 'garbage':
                    loop.call_later(beh[1], proto.data_received, b'{"jsonrpc":"2.0","id":%d,"result":1,"error":2}\n' % key)
                    continue
                if beh[0] == 'some' and isinstance(m, list):
                    continue
                if isinstance(m, list):
                    reply = json.dumps([{'jsonrpc': '2.0', 'id': i, 'result': i} for i in ids]).encode() + b'\n'
                else:
                    reply = json.dumps({'jsonrpc': '2.0', 'id': key, 'result': key}).encode() + b'\n'

                who = (m[0] if isinstance(m, list) else m)['params'][0]

                def deliver(reply=reply, ids=ids, who=who):
                    for i in ids:
                        answered.add(i)
                    if not ft.lost:
                        ans_time[who] = loop.time()         # the peer's well-formed answer reaches the session, connection up
                        proto.data_received(reply)
                loop.call_later(beh[1], deliver)

        written = {}
        ans_time = {}
        backlog = [0]
        snap_samples = []

        async def caller(i, spec):
            await asyncio.sleep(spec['start'])
            t0 = loop.time()
            try:
                if spec['batch']:
                    async with s.send_batch() as b:
                        for j in range(spec['batch']):
                            b.add_request('m', [i, j])
                    out = 'result'
                else:
                    await s.send_request('m', [i])
                    out = 'result'
            except curio.TaskTimeout:
                out = 'TaskTimeout'
            except asyncio.CancelledError:
                out = 'cancelled'
            except (jsonrpc.RPCError, jsonrpc.ProtocolError) as e:
                out = 'error'
            except Exception as e:
                out = 'other:' + type(e).__name__
            calls[i] = {'out': out, 't0': t0, 't1': loop.time()}

        async def monitor():
            while True:
                peer_poll()
                maxlimit[0] = max(maxlimit[0], s._outgoing_concurrency.max_concurrent)
                # callers between write and outcome, counted from what they did (not from the limiter's own books)
                inside = sum(1 for i in wtimes if i not in calls)
                done_written = sum(1 for k in calls if k in wtimes)      # finished callers that had entered for sure
                hist.append((loop.time(), inside, maxlimit[0], conc.max_concurrent, done_written, conc._sem_value))
                backlog[0] = max(backlog[0], len(s._req_times))
                await asyncio.sleep(0.01)

        async def main():
            mon = loop.create_task(monitor())
            tasks = [loop.create_task(caller(i, spec)) for i, spec in enumerate(case['callers'])]
            if case.get('lose_at') is not None:
                loop.call_later(case['lose_at'], ft.abort)
            for tn in case.get('notify_at', ()):
                loop.call_later(tn, lambda: None if ft.lost else proto.data_received(b'{"jsonrpc":"2.0","method":"tick","params":[]}\n'))
            horizon = case['horizon']
            done, pending = await asyncio.wait(tasks, timeout=horizon)
            snap_samples[:] = list(samples)
            for t in pending:
                t.cancel()
            mon.cancel()
            return len(pending)
        npending = loop.run_until_complete(main())
        return {'calls': {str(k): v for k, v in calls.items()}, 'pending': npending,
                'max_outstanding': max((h[1] for h in hist), default=0),
                'violations': [h for h in hist if h[1] > h[2]][:3],
                'lowered': lowered_violation(hist), 'backlog': backlog[0], 'recal': cfg['recal'],
                'limits': sorted(limits_seen), 'wtimes': {str(k): v for k, v in wtimes.items()},
                'timeout': cfg['timeout'],
                'samples': sorted(snap_samples),
                'expected_samples': sorted(x for i, c in calls.items() if i in wtimes
                                           for x in [(c['t1'] - wtimes[i]) / max(1, case['callers'][i]['batch'])] * max(1, case['callers'][i]['batch'])),
                'npending': npending, 'own_list': own_list, 'ans_time': {str(k): v for k, v in ans_time.items()},
                'lost': bool(ft.lost or ft.closing)}
    finally:
        session.time = saved_time
        sessions.close_loop(loop)


class C20(Prop):
    id = 'C20'
    coq_header = 'From Coq Require Import QArith.\nFrom AV Require Import Base Recalc.'
    case_type = 'Z * Q * Q * Z'
    check_fn = 'c20_ok'
    sizes = {'quick': 0, 'thorough': 0}
    shard = 500
    rule = ('recalibration: ALL current limits 1..250 x response-time histories (zero, tiny, around the target, huge; 1..40 '
            'samples) x target_response_time values, the real _recalc_concurrency vs the exact-rational model (exhaustive in '
            'the current limit); workloads: 1..120 concurrent callers (singles and batches) against a scripted peer (answers '
            'after any delay / never / only some / garbage / connection lost) on a virtual-time loop for several '
            'sent_request_timeout, target_response_time, recalibrate_count: every call must end by written + timeout and the '
            'outstanding requests never exceed the largest limit in force; non-trivial = recalibration case that moves the '
            'limit, or workload with >= 10 callers')

    def corpus(self):
        return [{'kind': 'recalc', 'current': 35, 'trt': 3.0, 'times': [0.01]},
                {'kind': 'recalc', 'current': 8, 'trt': 3.0, 'times': [100.0]},
                {'kind': 'recalc', 'current': 50, 'trt': 3.0, 'times': [0.0, 0.0]},
                {'kind': 'recalc', 'current': 250, 'trt': 3.0, 'times': [0.001]},
                {'kind': 'recalc', 'current': 1, 'trt': 3.0, 'times': [1000.0]}]

    def generate(self, rng, n, tier):
        reps = 4 if tier == 'quick' else 40
        self._n = 0
        for cur in range(1, 251):
            for _ in range(reps):
                trt = rng.choice([3.0, 3.0, 0.5, 10.0, 0.0])
                style = rng.choice(['zero', 'tiny', 'around', 'huge', 'mixed'])
                k = rng.choice([1, 2, 5, 30, 40])
                if style == 'zero':
                    times = [0.0] * k
                elif style == 'tiny':
                    times = [rng.choice([1e-6, 1e-3, 0.01]) for _ in range(k)]
                elif style == 'around':
                    times = [max(0.0, trt * rng.uniform(0.7, 1.3)) for _ in range(k)]
                elif style == 'huge':
                    times = [rng.choice([30.0, 100.0, 1e4]) for _ in range(k)]
                else:
                    times = [rng.choice([0.0, 0.01, 1.0, 3.0, 29.0]) for _ in range(k)]
                self._n += 1
                yield {'kind': 'recalc', 'current': cur, 'trt': trt, 'times': times}

    def run_impl(self, case):
        new, left = recalc_once(case['current'], case['trt'], case['times'])
        return {'new': new, 'cleared': left == []}

    def coq_case(self, case, obs):
        avg = sum(Fraction(t) for t in case['times']) / len(case['times'])
        return f"({c_Z(case['current'])}, {c_Q(Fraction(case['trt']))}, {c_Q(avg)}, {c_Z(obs['new'])})"

    def oracle(self, case, obs):
        import math
        c, n = case['current'], obs['new']
        if not 1 <= n <= 250:
            return 'recalibrated limit outside 1..250'
        if n - c > math.ceil(max(3, c * Fraction(1, 10))):
            return 'limit rose by more than max(3, 10%)'
        if c - n > math.ceil(max(1, c * Fraction(2, 10))):
            return 'limit fell by more than max(1, 20%)'
        if not obs['cleared']:
            return 'response-time samples not cleared after recalibration'
        return None

    def nontrivial(self, case, obs):
        return obs['new'] != case['current']

    def histogram(self, case, obs):
        d = obs['new'] - case['current']
        return ['up' if d > 0 else 'down' if d < 0 else 'same']

    def extra_checks(self, ctx):
        rng = ctx['rng']
        out = []
        nw = 12 if ctx['tier'] == 'quick' else 150
        ctx['exhaustive'].append(f'{getattr(self, "_n", 0)} recalibrations: every current limit 1..250')
        directed = [
            # a peer that never answers: every wave of callers times out, the limit is lowered again and again
            {'kind': 'workload', 'cfg': {'timeout': 1.0, 'trt': 0.5, 'recal': 5}, 'peer': [['never']],
             'callers': [{'start': 0, 'batch': 0}] * 160, 'lose_at': None, 'horizon': 400},
            # errors instead of results while the limit goes down
            {'kind': 'workload', 'cfg': {'timeout': 5.0, 'trt': 0.5, 'recal': 5}, 'peer': [['garbage', 2.0], ['answer', 3.0], ['never']],
             'callers': [{'start': 0, 'batch': 0}] * 150 + [{'start': 1.0, 'batch': 2}] * 10, 'lose_at': None, 'horizon': 600},
        ]
        # 45 of 50 slots in use, ten slow answers lower the limit while five slots are idle, then a backlog arrives:
        # the lowered limit must take effect as the outstanding requests complete
        directed.append({'kind': 'workload', 'cfg': {'timeout': 300.0, 'trt': 0.05, 'recal': 10},
                         'peer': [['answer', 1.0]] * 10 + [['answer', 20.0 + 0.5 * i] for i in range(35)] + [['answer', 60.0]] * 60,
                         'callers': [{'start': 0, 'batch': 0}] * 45 + [{'start': 2.0, 'batch': 0}] * 60, 'lose_at': None, 'horizon': 900})
        # an answer that comes after its caller has given up must not disturb the callers that are answered in time
        directed.append({'kind': 'workload', 'cfg': {'timeout': 1.0, 'trt': 0.5, 'recal': 30},
                         'peer': [['answer', 1.5], ['answer', 0.7], ['answer', 0.05]],
                         'callers': [{'start': 0, 'batch': 0}, {'start': 1.0, 'batch': 0}, {'start': 2.0, 'batch': 0}, {'start': 2.5, 'batch': 2},
                                     {'start': 3.0, 'batch': 0}], 'lose_at': None, 'horizon': 60})
        # earlier requests have timed out (their finished futures are still registered) when the connection is lost with later
        # requests and a batch outstanding: those are cancelled at the loss
        directed.append({'kind': 'workload', 'cfg': {'timeout': 1.0, 'trt': 0.5, 'recal': 30}, 'peer': [['never']],
                         'callers': [{'start': 0, 'batch': 0}] * 2 + [{'start': 0.9, 'batch': 0}, {'start': 1.0, 'batch': 2},
                                                                     {'start': 1.1, 'batch': 0}, {'start': 1.2, 'batch': 0}],
                         'lose_at': 1.6, 'horizon': 60})
        # the peer sends notifications whose handlers take seconds while our requests are in flight and being answered promptly
        directed.append({'kind': 'workload', 'cfg': {'timeout': 30.0, 'trt': 0.5, 'recal': 30}, 'peer': [['answer', 0.1]],
                         'callers': [{'start': 0, 'batch': 0}, {'start': 0.95, 'batch': 0}, {'start': 1.5, 'batch': 2}, {'start': 5.0, 'batch': 0}],
                         'notify_at': [0.9, 1.2], 'notify_handler_time': 40.0, 'lose_at': None, 'horizon': 200})
        for w in range(nw + len(directed)):
            ncall = rng.choice([1, 3, 10, 40, 120])
            timeout = rng.choice([30.0, 5.0, 1.0])
            cfg = {'timeout': timeout, 'trt': rng.choice([3.0, 0.5]), 'recal': rng.choice([30, 5, 1])}
            peer = [rng.choice([['answer', rng.choice([0.01, 0.5, 2.0, timeout - 0.5, timeout + 5.0])], ['never'],
                                ['answer', 0.05], ['answer', 0.05], ['garbage', 0.1], ['some', 0.2]])
                    for _ in range(rng.randrange(1, 6))]
            callers = [{'start': rng.choice([0, 0, 0.1, 1.0, 7.0]), 'batch': rng.choice([0, 0, 0, 2, 5])} for _ in range(ncall)]
            extra_ = {'notify_at': [rng.choice([0.05, 0.5, 2.0]) for _ in range(rng.randrange(1, 3))], 'notify_handler_time': rng.choice([3.0, 40.0])} \
                if rng.random() < 0.25 else {}
            case = {**extra_, 'kind': 'workload', 'cfg': cfg, 'peer': peer, 'callers': callers,
                    'lose_at': rng.choice([None, None, None, 0.3, timeout / 2]),
                    'horizon': (timeout + 21.0) * (2 + ncall) + 60}      # (the limit may fall to 1: the callers are then served one at a time)
            if w >= nw:
                case = directed[w - nw]
                ncall = len(case['callers'])
            o = workload(case)
            ctx['extra_evals'] += 1
            if ncall >= 10:
                ctx['extra_nontrivial'] += 1
            ctx['hist']['workload'] = ctx['hist'].get('workload', 0) + 1
            clause = None
            if o['pending']:
                clause = 'a caller of send_request / send_batch never got an outcome'
            elif o['violations']:
                clause = 'requests awaiting responses outnumber the largest limit in force'
            elif any(not 1 <= l <= 250 for l in o['limits']):
                clause = 'outgoing limit left the range 1..250'
            elif o['lowered']:
                clause = ('a lowered limit did not take effect as outstanding requests completed: '
                          f"{o['lowered']['in_flight']} in flight, limit lowered from {o['lowered']['from']}, "
                          f"{o['lowered']['completed_since']} completed since, largest limit since {o['lowered']['largest_limit_since']}")
            elif not o['own_list']:
                clause = ('the session keeps no response-time list of its own (the samples of all sessions of the process end up '
                          'in one list, so a session is recalibrated from other sessions\' response times)')
            elif case.get('lose_at') is None and not o['pending'] and (
                    len(o['samples']) != len(o['expected_samples'])
                    or any(abs(a - b) > 1e-6 for a, b in zip(o['samples'], o['expected_samples']))):
                bad = next(((a, b) for a, b in zip(o['samples'], o['expected_samples']) if abs(a - b) > 1e-6), None)
                clause = ('the response times fed to the recalibration are not the times between each request\'s own write and its '
                          f"outcome: recorded {len(o['samples'])} samples, expected {len(o['expected_samples'])}"
                          + (f', e.g. {bad[0]:.4f} s recorded where {bad[1]:.4f} s passed' if bad else ''))
            elif o['backlog'] >= o['recal'] + 5:
                clause = (f"{o['backlog']} response times were waiting although the limit is re-estimated after every "
                          f"{o['recal']} of them")
            else:
                for k, c in o['calls'].items():
                    ctx['hist']['call_' + c['out']] = ctx['hist'].get('call_' + c['out'], 0) + 1
                    if c['out'].startswith('other'):
                        clause = 'a caller got an unexpected exception: ' + c['out']
                    tw = o['wtimes'].get(k)
                    if tw is not None and c['t1'] - tw > o['timeout'] + 1e-6:
                        clause = 'a caller was still waiting after the response wait limit had passed since its request was written'
                    if c['out'] == 'TaskTimeout' and tw is not None and c['t1'] - tw < o['timeout'] - 1e-6:
                        clause = 'TaskTimeout before the response wait limit had passed'
                    la = case.get('lose_at')
                    if (la is not None and tw is not None and tw < la - 1e-6 and c['t1'] > la + 0.05 and c['out'] == 'TaskTimeout'):
                        clause = (f"a caller whose request was outstanding when the connection was lost (t={la}) was released only by its own "
                                  f"timeout at t={c['t1']:.3f}: outstanding requests are cancelled when the connection is lost")
                    ta = o['ans_time'].get(k)
                    if (case.get('lose_at') is None and not o['lost'] and tw is not None and ta is not None and ta - tw < o['timeout'] - 1e-6
                            and c['out'] != 'result'):
                        clause = (f"the peer's answer reached the session {ta - tw:.3f} s after the request was written (limit "
                                  f"{o['timeout']} s, connection up) but the caller got {c['out']} instead of the response")
            if clause:
                out.append(Failure(case, o, clause))
        # the outgoing limiter is the same Concurrency class as the incoming one: its per-handle trace acceptance
        # against model/Limiter.v (the model C20's limiter theorems are about) is part of this check too
        if ctx['build_ok']:
            from harness import core
            from harness.props.c13 import PROP as LIM
            ntr = 120 if ctx['tier'] == 'quick' else 1500
            lcases = list(LIM.generate(rng, ntr, ctx['tier']))
            lobs = core.run_impl_all(LIM, lcases)
            terms, idx = [], []
            for i, (c, ob) in enumerate(zip(lcases, lobs)):
                if isinstance(ob, dict) and ('__driver_error__' in ob or '__skipped_after_hangs__' in ob):
                    out.append(Failure(c, ob, 'limiter trace: ' + str(ob.get('__driver_error__', 'hang'))))
                    continue
                cl = LIM.oracle(c, ob)
                if cl:
                    out.append(Failure(c, ob, 'outgoing limiter (Concurrency): ' + cl))
                tm = LIM.coq_case(c, ob)
                if tm is not None:
                    terms.append(tm)
                    idx.append(i)
            mism, errors = core.eval_cases('C20lim', LIM.coq_header, LIM.case_type, LIM.check_fn, terms, shard=LIM.shard)
            for k, err in errors:
                ctx['broken'].append({'kind': 'correspondence', 'what': f'limiter cases shard {k} did not evaluate: {err[-600:]}'})
            bad = [idx[j] for j in mism if not any(f.case is lcases[idx[j]] for f in out)]
            if bad:
                ctx['broken'].append({'kind': 'correspondence',
                                      'what': f'model/Limiter.v and the real Concurrency differ on {len(bad)} of {len(terms)} traces '
                                              '(correspondence check c13_ok)', 'case': lcases[bad[0]]})
            ctx['extra_evals'] += len(terms)
            ctx['notes'].append(f'limiter traces accepted by model/Limiter.v: {len(terms) - len(mism)} of {len(terms)}')
        return out[:6]


PROP = C20()
