"""C18 - host, port, protocol validation is exact; addresses survive print/parse."""
import ipaddress, re
from harness.core import Prop, Failure, eval_show, c_Z, c_nlist
from harness import jsonvals as jv

LABEL_CHARS = 'abcxyzABCXYZ0189_-'
ODD = ['\n', ' ', '\t', '\r', '\x00', 'K', 'İ', 'ı', 'ſ', 'é', '٣', '²', '+', ',', '-', '.', '/', ':',
       '[', ']', '%', '@', '\x0b', '\x1c', ' ', '\U0001d7d8']


def hostname_spec(s):
    if s.endswith('.'):
        s = s[:-1]
    if not 1 <= len(s) <= 253:
        return False
    labels = s.split('.')

    def label_ok(l):
        return (1 <= len(l) <= 63 and all(c.isascii() and (c.isalnum() or c in '-_') for c in l)
                and not l.startswith('-') and not l.endswith('-'))
    last = labels[-1]
    if last and all(c in '0123456789' for c in last):
        return False
    return all(label_ok(l) for l in labels)


def protocol_spec(s):
    return (len(s) >= 2 and s[0].isascii() and s[0].isalpha()
            and all(c.isascii() and (c.isalnum() or c in '+-.') for c in s[1:]))


def run(case):
    from aiorpcx import util
    k = case['kind']
    fp = jv.from_plain
    try:
        if k == 'host':
            return {'res': util.is_valid_hostname(fp(case['s']))}
        if k == 'proto':
            return {'res': jv.to_plain(util.validate_protocol(fp(case['s'])))}
        if k == 'port':
            return {'res': util.validate_port(fp(case['p']))}
        if k == 'split':
            return {'res': [jv.to_plain(x) for x in util._split_address(fp(case['s']))]}
        if k == 'classify':
            r = util.classify_host(fp(case['s']))
            return {'res': jv.to_plain(str(r)), 'type': type(r).__name__}
        def host_of(case):
            h = fp(case['host'])
            if case.get('hostobj'):
                # the host handed over as an ipaddress object (what a transport's peer name is turned into) rather than as text
                import ipaddress as _ip
                try:
                    return _ip.ip_address(h)
                except ValueError:
                    return h
            return h
        if k == 'netaddr':
            a = util.NetAddress(host_of(case), case['port'])
            text = str(a)
            b = util.NetAddress.from_string(text)
            return {'text': jv.to_plain(text), 'equal': a == b}
        if k == 'service':
            a = util.Service(case['proto'], util.NetAddress(host_of(case), case['port']))
            text = str(a)
            b = util.Service.from_string(text)
            return {'text': jv.to_plain(text), 'equal': a == b}
        if k == 'from_string':
            a = util.NetAddress.from_string(fp(case['s']))
            return {'res': jv.to_plain(str(a))}
        if k == 'parse':
            # address / service strings parsed with a function supplying defaults for the missing parts
            P = util.ServicePart
            table = {'full': {P.HOST: 'localhost', P.PORT: 80, P.PROTOCOL: 'tcp'},
                     'noproto': {P.HOST: 'localhost', P.PORT: 80, P.PROTOCOL: None},
                     'nothing': {P.HOST: None, P.PORT: None, P.PROTOCOL: None},
                     'portonly': {P.HOST: None, P.PORT: 8080, P.PROTOCOL: None},
                     'badvals': {P.HOST: '', P.PORT: 0, P.PROTOCOL: '1x'},
                     'strport': {P.HOST: 'h.example', P.PORT: '443', P.PROTOCOL: 'SSL'}}.get(case['df'])
            if case['what'] == 'netaddr':
                df = None if table is None else (lambda part: table[part])
                a = util.NetAddress.from_string(fp(case['s']), default_func=df)
            else:
                df = None if table is None else (lambda protocol, part: table[part])
                a = util.Service.from_string(fp(case['s']), default_func=df)
            return {'res': jv.to_plain(str(a))}
    except ValueError as e:
        return {'exc': 'ValueError'}
    except TypeError as e:
        return {'exc': 'TypeError'}
    except BaseException as e:
        return {'exc': 'other:' + type(e).__name__}


def gen_label(rng):
    n = rng.choice([1, 1, 2, 3, 5, 8, 62, 63, 64])
    return ''.join(rng.choice(LABEL_CHARS) for _ in range(n))


def gen_hostish(rng):
    r = rng.random()
    labels = [gen_label(rng) for _ in range(rng.choice([1, 1, 2, 3, 4]))]
    s = '.'.join(labels)
    if r < 0.15:
        s += '.'
    if r > 0.5:
        for _ in range(rng.choice([1, 1, 2])):
            k = rng.randrange(len(s) + 1)
            op = rng.random()
            ch = rng.choice(ODD)
            if op < 0.5:
                s = s[:k] + ch + s[k:]
            elif op < 0.8 and s:
                s = s[:k] + ch + s[k + 1:]
            else:
                s = s + ch
    if rng.random() < 0.08:
        s = '.'.join(['a' * 61] * 4 + ['b' * rng.choice([3, 4, 5, 6, 7])]) + rng.choice(['', '', '.', '..'])  # lengths around 253
    if rng.random() < 0.08:
        s = rng.choice(['1.2.3.4', '1.2.3', '256.1.1.1', '::1', '12.34', '0', 'a.0', '0.a', '1e3', '٣.a', 'a.٣'])
    return s


class C18(Prop):
    id = 'C18'
    coq_header = 'From AV Require Import Base Utf8 Rx Gen_util Util UtilSpec.'
    case_type = 'c18case'
    check_fn = 'c18_ok'
    sizes = {'quick': 4000, 'thorough': 60000}
    shard = 400
    rule = ('strings from the host-name / protocol grammar and near it: trailing and embedded newlines and other whitespace, '
            'non-ASCII letters and digits (U+212A, U+0130, U+0131, U+017F, Arabic-Indic and superscript digits), the ASCII '
            "neighbours of '+', '-', '.', label lengths 62-64, name lengths 250-256; ints and digit strings (any script) as "
            'ports incl. 0, 65535, 65536, signs, spaces; bracketed and scoped IPv6 texts through _split_address; NetAddress / '
            'Service print-parse round trips for host names, IPv4, IPv6 incl. scope ids with special characters; address and service strings near the grammar parsed with seven kinds of default-supplying functions (exception class only); plus the '
            'exhaustive sweep of all 0x110000 one-character strings through the three validators against the English '
            'definitions; non-trivial = input of >= 2 characters; distinct = distinct case')
    trusted = ('the re engine is trusted to expand character classes (translator) and as the implementation under test',
               'ipaddress.ip_address (oracle for IP literals)')

    def corpus(self):
        tp = jv.to_plain
        return [{'kind': 'host', 's': tp('example.com\n')}, {'kind': 'host', 's': tp('K.com')}, {'kind': 'proto', 's': tp('t,p')},
                {'kind': 'proto', 's': tp('tcp\n')}, {'kind': 'netaddr', 'host': tp('fe80::1%]'), 'port': 80},
                {'kind': 'parse', 'what': 'netaddr', 's': tp('[::1]x80'), 'df': 'none'}, {'kind': 'parse', 'what': 'service', 's': tp('tcp://[::1] 80'), 'df': 'none'},
                {'kind': 'parse', 'what': 'netaddr', 's': tp('[::1]65535'), 'df': 'none'}, {'kind': 'parse', 'what': 'netaddr', 's': tp('[fe80::1%eth0];443'), 'df': 'none'},
                {'kind': 'netaddr', 'host': tp('::ffff:1.2.3.4'), 'port': 80, 'hostobj': True}, {'kind': 'service', 'proto': 'tcp', 'host': tp('::ffff:10.0.0.1'), 'port': 1, 'hostobj': True},
                {'kind': 'netaddr', 'host': tp('::1.2.3.4'), 'port': 80, 'hostobj': True}, {'kind': 'netaddr', 'host': tp('1.2.3.4'), 'port': 80, 'hostobj': True},
                {'kind': 'host', 's': tp('a' * 63 + '.' + 'b' * 63)}, {'kind': 'port', 'p': tp('٨٠')}, {'kind': 'port', 'p': tp('²')}]

    def generate(self, rng, n, tier):
        tp = jv.to_plain
        for i in range(n):
            r = rng.random()
            if r < 0.45:
                yield {'kind': 'host', 's': tp(gen_hostish(rng))}
            elif r < 0.6:
                base = rng.choice(['tcp', 'ssl', 'ws', 'Ftp.-x+', 'a1', 'a', 'A+', 'x' * 20])
                if rng.random() < 0.6:
                    k = rng.randrange(len(base) + 1)
                    base = base[:k] + rng.choice(ODD + ['1', 'Z']) + base[k:]
                yield {'kind': 'proto', 's': tp(base)}
            elif r < 0.75:
                p = rng.choice([0, 1, 80, 65535, 65536, -1, 10 ** 20, '0', '1', '80', '65535', '65536', '080', '', ' 80', '80 ', '+80', '-1',
                                '8_0', '٨٠', '۸۰', '8٠', '²', '1²', '1e3', '0x50', '9' * 4301, '1' + '0' * 30,
                                # digit strings of six and more characters: leading zeros do not change the value
                                '000080', '0000443', '065535', '065536', '000000', '0000001', '0' * 20 + '22', '00000' + str(rng.randrange(1, 70000)),
                                str(rng.randrange(0, 70000)), rng.randrange(-5, 70000)])
                yield {'kind': 'port', 'p': tp(p)}
            elif r < 0.8:
                s = rng.choice(['', 'host', 'host:80', 'host:', ':80', ':', '[::1]:80', '[::1]', '::1', 'tcp://host:80', 'tcp://host', 'tcp://:80',
                                'tcp://', '://host:80', 'tcp:/host', 'tcp', 'SSL', '80', 'localhost', 'foo.bar:80', '1.2.3.4', '1.2.3.4:5',
                                'a://b://c', 'tcp://[::1]', 'tcp://[::1]:1', 'x' * 300, 'tcp://' + gen_hostish(rng), gen_hostish(rng),
                                gen_hostish(rng) + ':' + str(rng.randrange(70000)), 'example.com:000080', '[::1]:0000443', 'ssl://1.2.3.4:065535',
                                'example.com:80:443', '1.2.3.4:80:', 'localhost:80:x', 'ssl://example.com:443:junk', 'example.com::80',
                                '[::1]x80', '[::1] 80', '[::1]65535', '[::1]\n80', 'tcp://[::1]x80', '[fe80::1%eth0]' + rng.choice(['x', ' ', ';', '.', '1']) + str(rng.randrange(1, 65536)),
                                'host:0' + str(rng.randrange(70000)), 'tcp://host:80:' + str(rng.randrange(100))])
                yield {'kind': 'parse', 'what': rng.choice(['netaddr', 'service', 'service']), 's': tp(s),
                       'df': rng.choice(['none', 'full', 'noproto', 'nothing', 'portonly', 'badvals', 'strport'])}
            elif r < 0.87:
                s = rng.choice(['[::1]:80', '[::1]', '[::1', '::1:80', 'a:b:c', ':', '', 'host', 'host:', ':80', '[a]b]:1', '[a]:b]:1',
                                '[fe80::1%]]:80', '[]:1', '[]', '[:]:', '1.2.3.4:5', '[x]y', '[x]:', gen_hostish(rng) + ':' + str(rng.randrange(70000))])
                yield {'kind': 'split', 's': tp(s)}
            else:
                host = rng.choice(['example.com', 'a', 'a-b.c_d', '3com.com', '163.com', '9gag', '1a', '0.a', '12Foo.Bar.Bax_', '192-168-1-1.dyn.example.net', '1.2.3.4', '255.0.0.1', '::1', '2001:db8::1', 'fe80::1%eth0', 'fe80::1%]',
                                   'fe80::1%a]:1', '::ffff:1.2.3.4', 'fe80::1%[', 'x' * 63 + '.y', 'localhost.',
                                   'fe80::1%wlan\n0', 'fe80::1%a\rb', 'fe80::1%\x85', 'fe80::1%\u2028x', 'fe80::1%a b', 'fe80::1%\t'])
                if rng.random() < 0.3:
                    # IPv6 addresses that embed an IPv4 address, and their neighbours
                    v4 = '%d.%d.%d.%d' % tuple(rng.choice([0, 1, 10, 127, 192, 255, rng.randrange(256)]) for _ in range(4))
                    host = rng.choice(['::ffff:' + v4, '::' + v4, '::ffff:0:' + v4, '64:ff9b::' + v4, '::fffe:' + v4, '::1:ffff:' + v4, '2002:' + v4.replace('.', ':') + '::1',
                                       '::ffff:' + v4 + '%eth0'])
                port = rng.choice([1, 80, 65535, rng.randrange(1, 65536)])
                hostobj = rng.random() < 0.4
                if rng.random() < 0.5:
                    yield {'kind': 'netaddr', 'host': tp(host), 'port': port, 'hostobj': hostobj}
                else:
                    yield {'kind': 'service', 'proto': rng.choice(['tcp', 'SSL', 'ws', 'Ftp.-x+']), 'host': tp(host), 'port': port, 'hostobj': hostobj}

    def run_impl(self, case):
        return run(case)

    def coq_case(self, case, obs):
        fp = jv.from_plain
        k = case['kind']
        if 'exc' in obs and obs['exc'] != 'ValueError':
            return None
        if k == 'host':
            return f"CHost {jv.text_term(fp(case['s']))} {'true' if obs['res'] else 'false'}"
        if k == 'proto':
            o = 'None' if 'exc' in obs else f"(Some {jv.text_term(fp(obs['res']))})"
            return f"CProto {jv.text_term(fp(case['s']))} {o}"
        if k == 'port':
            p = fp(case['p'])
            if isinstance(p, str) and len(p) > 3000:
                return None
            pt = f"(PInt {c_Z(p)})" if isinstance(p, int) else f"(PStr {jv.text_term(p)})"
            o = '(@None Z)' if 'exc' in obs else f"(Some {c_Z(obs['res'])})"
            return f"CPort {pt} {o}"
        if k == 'split':
            h, p = [fp(x) for x in obs['res']]
            return f"CSplit {jv.text_term(fp(case['s']))} {jv.text_term(h)} {jv.text_term(p)}"
        return None

    def oracle(self, case, obs):
        fp = jv.from_plain
        k = case['kind']
        if 'exc' in obs and obs['exc'].startswith('other'):
            return 'an exception other than ValueError / TypeError: ' + obs['exc']
        if k == 'host':
            if obs.get('res') != hostname_spec(fp(case['s'])):
                return 'host name accepted/refused contrary to the definition (1-253 chars of dot-separated labels of 1-63 letters, digits, hyphens, underscores, not beginning/ending with a hyphen, last label not all digits)'
        elif k == 'proto':
            ok = 'exc' not in obs
            if ok != protocol_spec(fp(case['s'])):
                return "protocol name accepted/refused contrary to the definition (a letter followed by one or more letters, digits, '+', '-', '.')"
        elif k == 'port':
            p = fp(case['p'])
            want = None
            if isinstance(p, int):
                want = p if 1 <= p <= 65535 else None
            elif isinstance(p, str) and p and p.isdigit():
                try:
                    v = int(p)
                    want = v if 1 <= v <= 65535 else None
                except ValueError:
                    want = None
            if obs.get('res') != want or ('exc' in obs) != (want is None):
                return 'port accepted/refused contrary to 1-65535'
        elif k == 'parse':
            s = fp(case['s'])
            if isinstance(s, str) and 'exc' not in obs and case['df'] == 'none':
                addr = s.split('://', 1)[1] if (case['what'] == 'service' and '://' in s) else s
                if addr.startswith('[') and ']' in addr:
                    rest = addr[addr.rfind(']') + 1:]
                    if rest and not rest.startswith(':'):
                        return ('a bracketed address text was accepted although what follows the closing bracket does not begin with a colon: %r' % rest[:20])
                if '[' not in addr and addr.count(':') != 1:
                    return ('an address text with %d colons outside brackets was accepted without defaults: what follows the host must be '
                            'exactly one colon and a port' % addr.count(':'))
        elif k in ('netaddr', 'service'):
            host = fp(case['host'])
            valid = True
            try:
                ipaddress.ip_address(host)
            except ValueError:
                valid = hostname_spec(host)
            if valid and 'exc' in obs:
                return 'printing a valid address and parsing the text back raised ' + obs['exc']
            if valid and not obs.get('equal'):
                return 'printing a valid address and parsing the text back gives a different object'
        return None

    def nontrivial(self, case, obs):
        s = jv.from_plain(case.get('s') or case.get('p') or case.get('host') or '')
        return isinstance(s, str) and len(s) >= 2

    def histogram(self, case, obs):
        return ['kind=' + case['kind'], 'exc' if 'exc' in obs else 'ok=%s' % (obs.get('res') if case['kind'] == 'host' else 'y')]

    def extra_checks(self, ctx):
        from aiorpcx import util
        out = []
        # exhaustive single-character sweep against the English definitions
        bad_h, bad_p = None, None
        for c in range(0x110000):
            ch = chr(c)
            if util.is_valid_hostname(ch) != hostname_spec(ch) and bad_h is None:
                bad_h = c
            for s in ('a' + ch, ch + 'a'):
                try:
                    util.validate_protocol(s)
                    acc = True
                except ValueError:
                    acc = False
                if acc != protocol_spec(s) and bad_p is None:
                    bad_p = s
        ctx['extra_evals'] += 3 * 0x110000
        ctx['extra_nontrivial'] += 2 * 0x110000
        ctx['exhaustive'].append('all 0x110000 one-character host names and two-character protocol names')
        if bad_h is not None:
            out.append(Failure({'kind': 'host', 's': jv.to_plain(chr(bad_h))}, {'res': util.is_valid_hostname(chr(bad_h))},
                               'host name accepted/refused contrary to the definition (single-character sweep)'))
        if bad_p is not None:
            out.append(Failure({'kind': 'proto', 's': jv.to_plain(bad_p)}, {},
                               'protocol name accepted/refused contrary to the definition (character sweep)'))
        # when the proofs are broken: replay the model's distinguishing strings on the real re engine
        if not ctx['build_ok']:
            for name, kind in (('label_cex', 'host'), ('numeric_cex', 'host'), ('protocol_cex', 'proto')):
                txt = eval_show('C18', self.coq_header, name)
                m = re.search(r'Some \[(.*?)\]', txt)
                if not m:
                    continue
                s = ''.join(chr(int(x)) for x in re.findall(r'\d+', m.group(1)))
                if name == 'numeric_cex':
                    s = 'a.' + s
                case = {'kind': kind, 's': jv.to_plain(s), 'from_model_witness': name}
                o = run(case)
                cl = self.oracle(case, o)
                ctx['notes'].append(f'model witness {name}: {s!r} -> oracle: {cl}')
                if cl:
                    out.append(Failure(case, o, cl))
        return out


PROP = C18()
