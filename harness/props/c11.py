"""C11 - timeouts fire at their deadline, at the right level, leave nothing armed."""
from harness.core import Prop
from harness.props import timeouts_common as tc


class C11(Prop):
    id = 'C11'
    coq_header = tc.HEADER
    case_type = tc.CASE_TYPE
    check_fn = 'c11_ok'
    sizes = {'quick': 1500, 'thorough': 25000}
    shard = 150
    rule = ('random programs (depth <= 4) over await / seq / timeout_after|at / ignore_after|at blocks in context-manager '
            'and coroutine form / try-except of TaskTimeout, UncaughtTimeoutError, KeyError / raise (incl. 6% programs whose body ends '
            'before every deadline with a TaskTimeout / TimeoutCancellationError / UncaughtTimeoutError from elsewhere); relative and absolute '
            'deadlines incl. zero and past; 30% with an external cancel; compiled to real coroutines over aiorpcx.curio on '
            'a virtual-time event loop; compared: final outcome, per-block (exception leaving, expired) in exit order, end '
            'time, whether a follow-on sleep ran undisturbed; runs in which two timers are due at the same instant are '
            'skipped (counted as tie); non-trivial = >= 2 blocks and some block expired; distinct = distinct program+cancel')
    trusted = ('harness/vloop.py (stock SelectorEventLoop with a virtual clock)',)
    assumptions = ('timers with equal expiry instants excluded (asyncio heap order unspecified)',)

    def corpus(self):
        f10 = ['block', 'timeout', False, 40, ['seq', ['try', ['block', 'timeout', False, 2, ['await', 8], 'cm'],
                                                        ['TaskTimeout'], ['skip']], ['await', 20]], 'cm']
        return [{'prog': f10, 'ext': None},
                {'prog': ['block', 'timeout', False, 8, ['block', 'ignore', False, 16, ['await', 30], 'cm'], 'cm'], 'ext': None},
                {'prog': ['block', 'timeout', False, 16, ['block', 'timeout', False, 8, ['await', 30], 'coro'], 'cm'], 'ext': None},
                {'prog': ['seq', ['block', 'ignore', True, -2, ['await', 6], 'cm'], ['await', 4]], 'ext': None}] + [
            # two (three) nested blocks with exactly the same deadline: one timer serves them all, each reports its own expiry
            {'prog': ['block', k1, True, 16, ['block', k2, True, 16, inner, f2], f1], 'ext': None}
            for k1 in ('timeout', 'ignore') for k2 in ('timeout', 'ignore') for f1, f2 in (('cm', 'cm'), ('coro', 'cm'), ('cm', 'coro'))
            for inner in (['await', 60], ['block', 'timeout', True, 16, ['await', 60], 'cm'], ['seq', ['await', 60], ['await', 4]])] + [
            {'prog': ['block', k1, True, 16, ['seq', ['block', 'ignore', True, 16, ['await', 60], 'cm'], ['await', 30]], f1], 'ext': None}
            for k1 in ('timeout', 'ignore') for f1 in ('cm', 'coro')] + [
            # the same absolute deadline T on the outermost and on an inner block with a later deadline between them: the inner
            # block owns T (TaskTimeout), the middle block must turn that unhandled timeout into UncaughtTimeoutError
            {'prog': ['block', k1, True, 16, ['block', 'timeout', False, 40, ['block', 'timeout', True, 16, ['await', 60], f3], f2], f1], 'ext': None}
            for k1 in ('timeout', 'ignore') for f1, f2, f3 in (('cm', 'cm', 'cm'), ('cm', 'coro', 'cm'), ('coro', 'cm', 'coro'))] + [
            # a block that finishes before its deadline is unaffected - also when what ends it looks like a timeout
            {'prog': ['block', k, False, 16, ['seq', ['await', 2], ['raise', e]], f], 'ext': None}
            for k in ('timeout', 'ignore') for f in ('cm', 'coro') for e in ('TaskTimeout', 'TimeoutCancellationError', 'UncaughtTimeoutError')] + [
            # depth 3, the outermost deadline earlier than the middle one; the innermost block is left (normally, by its
            # own timeout that is caught, by an ignored timeout) while the body goes on inside the middle block: the timer
            # must then be armed for the EARLIEST enclosing deadline
            {'prog': ['block', k1, False, 12, ['block', k2, False, 40, ['seq', inner, ['await', 60]], f2], f1], 'ext': None}
            for k1 in ('timeout', 'ignore') for k2 in ('timeout', 'ignore') for f1, f2 in (('cm', 'cm'), ('coro', 'cm'))
            for inner in (['block', 'timeout', False, 6, ['await', 2], 'cm'],
                          ['try', ['block', 'timeout', False, 2, ['await', 8], 'cm'], ['TaskTimeout'], ['skip']],
                          ['block', 'ignore', False, 2, ['await', 8], 'cm'])]

    def generate(self, rng, n, tier):
        for _ in range(n):
            p = tc.gen_foreign(rng) if rng.random() < 0.06 else tc.gen_prog(rng, 4, {})
            ext = 2 * rng.randrange(0, 40) + 1 if rng.random() < 0.3 else None
            yield {'prog': p, 'ext': ext}

    def run_impl(self, case):
        return tc.run_program(case)

    def coq_case(self, case, obs):
        return tc.coq_case(case, obs)

    def oracle(self, case, obs):
        if obs['tie']:
            return None
        if obs['left_at_end'] or obs['left']:
            return 'a timeout timer is still armed after all blocks have exited'
        if case.get('ext') is None and obs['out'] == 'ok' and obs['tail'] != 'tail-ok':
            return 'a cancellation was delivered after the blocks had exited (follow-on code was cancelled)'
        swallows = tc.catches_cancel(case['prog'])
        for i_, (exc, expired, t0, dl, t1, kind, leaf) in enumerate(obs['log']):
            if (exc == 'CancelledError' and not expired and abs(t1 - max(dl, t0)) < 1e-9 and case.get('ext') is None
                    and not tc.raises_foreign(case['prog'], ('CancelledError',))):
                return ('a block still running at its deadline was left by a bare CancelledError at that very instant instead of '
                        'reporting its timeout (TaskTimeout / quiet end with expired set)')
            if exc == 'TimeoutCancellationError' and abs(t1 - max(dl, t0)) < 1e-9 and case.get('ext') is None \
                    and not tc.raises_foreign(case['prog'], ('TimeoutCancellationError',)) \
                    and not any(o[3] < dl - 1e-9 and o[2] <= t0 + 1e-9 for o in obs['log'][i_ + 1:]):      # (no enclosing block was due earlier)
                return ('a block was left by TimeoutCancellationError at the very instant of its OWN deadline: the block whose deadline '
                        'passed reports the timeout itself (TaskTimeout / quiet end); TimeoutCancellationError is for the blocks inside it')
            if (kind == 'ignore' and exc == 'normal' and not expired and leaf and dl > t0 and abs(t1 - dl) < 1e-9
                    and case.get('ext') is None):
                return ('an ignore block whose body was still running at the deadline ended quietly but its expired attribute is '
                        'False (indistinguishable from a body that finished in time)')
            if t1 > max(dl, t0) + 1e-9 and not swallows and case.get('ext') is None:
                return (f'a block was still running after its deadline (entered {t0}, deadline {dl}, left {t1}): '
                        'it was not interrupted at its deadline')
            if expired:
                if abs(t1 - max(dl, t0)) > 1e-9:
                    return 'a block reported expiry at an instant other than its deadline'
                if kind == 'timeout' and exc != 'TaskTimeout':
                    return 'an expired timeout block did not raise TaskTimeout'
                if kind == 'ignore' and exc != 'normal':
                    return 'an expired ignore block did not end quietly'
            else:
                if exc == 'TaskTimeout' and case.get('ext') is None and not _raises_tt(case['prog']):
                    return 'TaskTimeout left a block that did not expire'
            if exc == 'TimeoutCancellationError' and expired:
                return 'a block reported expiry although it saw TimeoutCancellationError'
        # UncaughtTimeoutError is reserved for an inner timeout nobody handled: it can only leave a block at the very
        # instant at which a block inside it let a TaskTimeout (or that error) out
        for i, (exc, expired, t0, dl, t1, kind, leaf) in enumerate(obs['log']):
            if exc == 'UncaughtTimeoutError' and not tc.raises_foreign(case['prog'], ('UncaughtTimeoutError',)) and not any(
                    e2 in ('TaskTimeout', 'UncaughtTimeoutError') and abs(t1b - t1) < 1e-9
                    for e2, _, _, _, t1b, _, _ in obs['log'][:i]):
                return ('UncaughtTimeoutError left a block although no block inside it let a timeout out at that instant '
                        '(an inner timeout that was handled earlier was taken for an unhandled one)')
        return None

    def extra_checks(self, ctx):
        """a timeout block entered while the cancellation of an enclosing block's timeout is unwinding - in a `finally`
        clause, or in an `except CancelledError` handler that re-raises -: the enclosing block still reports its timeout
        (the program DSL has no `finally`; these shapes run on the implementation only)"""
        import asyncio
        from harness.core import Failure
        from aiorpcx import curio
        out, out_known, n = [], [], 0
        for okind in ('timeout', 'ignore'):
            for ikind in ('timeout', 'ignore'):
                for style in ('finally', 'except_reraise'):
                    for inner_deadline, cleanup in ((16, 2), (16, 0), (4, 2)):
                        loop = tc.TLoop()
                        asyncio.set_event_loop(loop)
                        info = {}

                        async def main():
                            ofn = curio.timeout_after if okind == 'timeout' else curio.ignore_after
                            ifn = curio.timeout_after if ikind == 'timeout' else curio.ignore_after
                            t0 = loop.time()
                            cm = ofn(8 * tc.TICK)

                            async def cleanup_block():
                                async with ifn(inner_deadline * tc.TICK):
                                    if cleanup:
                                        await asyncio.sleep(cleanup * tc.TICK)
                            try:
                                async with cm:
                                    if style == 'finally':
                                        try:
                                            await asyncio.sleep(60 * tc.TICK)
                                        finally:
                                            await cleanup_block()
                                    else:
                                        try:
                                            await asyncio.sleep(60 * tc.TICK)
                                        except asyncio.CancelledError:
                                            await cleanup_block()
                                            raise
                                info['out'] = 'normal'
                            except BaseException as e:
                                info['out'] = type(e).__name__
                            info['expired'] = cm.expired
                            info['left_at'] = round((loop.time() - t0) / tc.TICK, 3)
                        try:
                            loop.run_until_complete(main())
                        finally:
                            loop.close()
                            asyncio.set_event_loop(None)
                        n += 1
                        want = 'TaskTimeout' if okind == 'timeout' else 'normal'
                        if info.get('out') != want or not info.get('expired'):
                            out.append(Failure({'kind': 'block_entered_while_unwinding', 'outer': okind, 'inner': ikind, 'style': style,
                                                'outer_deadline_ticks': 8, 'inner_deadline_ticks': inner_deadline, 'cleanup_ticks': cleanup}, info,
                                               f"a {okind} block still running at its deadline, whose body enters another timeout block while the "
                                               f"cancellation unwinds ({style}), was left by {info.get('out')} with expired = {info.get('expired')}: "
                                               f"it must report its own timeout ({'TaskTimeout' if okind == 'timeout' else 'quiet end'}, expired set)"))
        # cleanup code that KEEPS RUNNING after a timeout has fired (known finding F21: the one timer and the one record
        # of the task are not kept up while a fired block is still unwinding)
        for shape in ('cleanup_block_outlasts_its_deadline', 'enclosing_deadline_passes_during_cleanup',
                      'unhandled_inner_timeout_then_cleanup_block', 'cleanup_block_times_out_itself'):
            for okind in ('timeout', 'ignore'):
                for ikind in ('timeout', 'ignore'):
                    info = cleanup_scenario(shape, okind, ikind)
                    n += 1
                    bad = cleanup_verdict(shape, okind, ikind, info)
                    if bad:
                        out_known.append(Failure({'kind': 'cleanup_after_timeout_fired', 'shape': shape, 'outer': okind, 'inner': ikind}, info, bad))
        ctx['extra_evals'] += n
        ctx['notes'].append(f'blocks entered while an enclosing timeout is unwinding (finally / except-and-re-raise): {n} shapes on the implementation')
        return out[:3] + out_known

    def classify(self, case, obs, clause):
        # F21 is identified by the exact program shape AND the exact outcome recorded for it: any other outcome of
        # these programs, and any other program, is reported
        if isinstance(case, dict) and case.get('kind') == 'cleanup_after_timeout_fired':
            from harness.core import load_known
            for k in load_known():
                if k.get('id') == 'F21':
                    key = '%s/%s/%s' % (case.get('shape'), case.get('outer'), case.get('inner'))
                    if k.get('witnesses', {}).get(key) == obs:
                        return 'F21'
        return None

    def nontrivial(self, case, obs):
        return tc.nblocks(case['prog']) >= 2 and any(x[1] for x in obs['log'])

    def histogram(self, case, obs):
        h = ['out=' + obs['out'], 'tie' if obs['tie'] else 'notie', 'blocks=%d' % min(tc.nblocks(case['prog']), 6)]
        for x in obs['log']:
            h.append('blk_' + x[0] + ('_expired' if x[1] else ''))
        return h


def cleanup_scenario(shape, okind, ikind):
    """programs whose cleanup code (a finally clause) keeps awaiting after a timeout has fired; virtual clock"""
    import asyncio
    from aiorpcx import curio
    loop = tc.TLoop()
    asyncio.set_event_loop(loop)
    info = {}
    T = tc.TICK
    ofn = curio.timeout_after if okind == 'timeout' else curio.ignore_after
    ifn = curio.timeout_after if ikind == 'timeout' else curio.ignore_after

    async def main():
        t0 = loop.time()

        def at():
            return round((loop.time() - t0) / T, 3)
        o = ofn((20 if shape in ('enclosing_deadline_passes_during_cleanup', 'unhandled_inner_timeout_then_cleanup_block') else 8) * T)
        try:
            async with o:
                if shape == 'cleanup_block_outlasts_its_deadline':
                    try:
                        await asyncio.sleep(60 * T)
                    finally:
                        i = ifn(4 * T)
                        try:
                            async with i:
                                await asyncio.sleep(50 * T)
                            info['inner_out'] = 'normal'
                        except BaseException as e:
                            info['inner_out'] = type(e).__name__
                        info['inner_expired'], info['inner_left_at'] = i.expired, at()
                elif shape == 'enclosing_deadline_passes_during_cleanup':
                    i = ifn(8 * T)
                    try:
                        async with i:
                            try:
                                await asyncio.sleep(60 * T)
                            finally:
                                await asyncio.sleep(50 * T)
                        info['inner_out'] = 'normal'
                    except curio.TaskTimeout:
                        info['inner_out'] = 'TaskTimeout'
                    info['inner_left_at'] = at()
                elif shape == 'unhandled_inner_timeout_then_cleanup_block':
                    try:
                        async with curio.timeout_after(4 * T):
                            await asyncio.sleep(60 * T)
                    finally:
                        async with ifn(5 * T):
                            await asyncio.sleep(1 * T)
                else:
                    try:
                        await asyncio.sleep(60 * T)
                    finally:
                        i = curio.ignore_at(t0 + 2 * T) if ikind == 'ignore' else curio.timeout_at(t0 + 2 * T)
                        try:
                            async with i:
                                await asyncio.sleep(3 * T)
                            info['inner_out'] = 'normal'
                        except curio.TaskTimeout:
                            info['inner_out'] = 'TaskTimeout'
                        info['inner_expired'] = i.expired
            info['out'] = 'normal'
        except BaseException as e:
            info['out'] = type(e).__name__
        info['expired'], info['left_at'] = o.expired, at()
    try:
        loop.run_until_complete(main())
    finally:
        loop.close()
        asyncio.set_event_loop(None)
    return info


def cleanup_verdict(shape, okind, ikind, info):
    """what the property's text asks of these programs; returns the clause broken or None"""
    own = 'TaskTimeout' if okind == 'timeout' else 'normal'
    if shape == 'cleanup_block_outlasts_its_deadline':
        # entered at 8 ticks with 4 ticks to live: interrupted at 12; the outer block still reports its own timeout
        if info.get('inner_left_at') != 12.0 or not info.get('inner_expired'):
            return (f"a {ikind} block entered in a finally clause at 8 ticks with a deadline 4 ticks away was still running at that deadline and was not "
                    f"interrupted then: it was left at {info.get('inner_left_at')} ticks with expired = {info.get('inner_expired')}")
        if info.get('out') != own or not info.get('expired'):
            return f"the outer {okind} block did not report its own timeout: {info.get('out')}, expired = {info.get('expired')}"
    elif shape == 'enclosing_deadline_passes_during_cleanup':
        if info.get('left_at') != 20.0 or info.get('out') != own or not info.get('expired'):
            return (f"a {okind} block with its deadline at 20 ticks was still running then (an inner block that timed out at 8 ticks was still in its finally "
                    f"clause) and was not interrupted: left at {info.get('left_at')} ticks by {info.get('out')} with expired = {info.get('expired')}")
    elif shape == 'unhandled_inner_timeout_then_cleanup_block':
        if info.get('out') != 'UncaughtTimeoutError':
            return (f"an inner timeout that nobody handled left the enclosing {okind} block as {info.get('out')} instead of UncaughtTimeoutError "
                    f"(a {ikind} block was entered and left in a finally clause on the way)")
    else:
        if info.get('out') != own or not info.get('expired'):
            return (f"a {okind} block still running at its deadline, whose finally clause runs a {ikind}_at block that times out itself, was left by "
                    f"{info.get('out')} with expired = {info.get('expired')} instead of reporting its own timeout")
    return None


def _raises_tt(p):
    return tc.raises_foreign(p)


PROP = C11()
