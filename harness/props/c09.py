"""C09 - no task outlives its TaskGroup's join (model/TaskGroup.v)."""
from harness.core import Prop
from harness.props import tg_common as tc


class C09(Prop):
    id = 'C09'
    coq_header = tc.HEADER
    case_type = tc.CASE_TYPE
    check_fn = 'tg_ok'
    sizes = {'quick': 700, 'thorough': 12000}
    shard = 50
    rule = ('small programs over a real TaskGroup on a single-step event loop: 1-4 members and 0-2 daemons reacting to '
            'cancellation by re-raising / slowly / swallowing it / spawning a new member; four wait policies; join() / context '
            'manager / body raising; members finishing with None / value / exception / external cancel in random order; the '
            'joining task cancelled at random instants; after EVERY loop handle the group state (pending, daemons, done queue, '
            'semaphore, joined, completed, finished tasks) and the content of the ready queue are compared with the model; the '
            'C09 oracle is evaluated at the very label at which the joining task ends; non-trivial = >= 3 tasks and the joining '
            'task ended; distinct = distinct program')
    trusted = ('harness/steploop.py (single-step loop, pure-Python Task so that handles expose their task)',)

    def corpus(self):
        f11 = {'policy': 'all', 'mode': 'join', 'members': [{'react': 'spawn', 'daemon': False}, {'react': 'reraise', 'daemon': False}],
               'actions': [['start'], ['tick'], ['tick'], ['tick'], ['finish', 1, ['exc']]] + [['tick']] * 12}
        f12b = {'policy': 'all', 'mode': 'aexit_exc', 'members': [{'react': 'slow', 'daemon': False}],
                'actions': [['start'], ['tick'], ['cancelJ'], ['tick'], ['tick']]}
        f12 = {'policy': 'all', 'mode': 'join', 'members': [{'react': 'slow', 'daemon': False}, {'react': 'reraise', 'daemon': False}],
               'actions': [['start'], ['tick'], ['tick'], ['tick'], ['finish', 1, ['exc']]] + [['tick']] * 6 + [['cancelJ']] + [['tick']] * 6}
        # groups holding only daemons, left through the context manager with a clean body: the daemons are cancelled and waited for
        d1 = {'policy': 'all', 'retain': False, 'init': [], 'mode': 'aexit', 'members': [{'react': 'reraise', 'daemon': True}],
              'actions': [['tick'], ['tick'], ['start']] + [['tick']] * 40}
        d2 = {'policy': 'object', 'retain': True, 'init': [], 'mode': 'aexit',
              'members': [{'react': 'reraise', 'daemon': True}, {'react': 'reraise', 'daemon': True}],
              'actions': [['tick'], ['start']] + [['tick']] * 40}
        # big groups (a cancellation loop that pauses every so many members has to survive the members it has already cancelled finishing)
        big = [{'policy': 'all', 'mode': mode, 'members': [{'react': 'reraise', 'daemon': i % 9 == 8} for i in range(nm)],
                'actions': [['start']] + [['tick']] * 12 + ([['finish', 1, ['exc']]] if mode == 'join' else []) + [['tick']] * 60}
               for nm in (33, 70, 130) for mode in ('aexit_exc', 'join')]
        return [f11, f12, f12b, d1, d2] + big

    def generate(self, rng, n, tier):
        for _ in range(n):
            yield tc.gen_case(rng)

    def run_impl(self, case):
        return tc.run_case(case)

    def coq_case(self, case, obs):
        return tc.coq_case(case, obs)

    def coq_show(self, case, obs):
        t = tc.coq_case(case, obs)
        return None if t is None else f"let '(p, m, tr) := {t} in trace_firstbad (init p m) tr 0"

    def oracle(self, case, obs):
        je = obs['join_end']
        if je is None or not (je['entered'] or je.get('exiting')):
            return None
        if je['undone']:
            if je['joiner_cancelled'] and not je['joined']:
                where = 'join' if je['entered'] else 'cancel_remaining() in __aexit__'
                return (f'the joining task was cancelled while {where} waited for cancelled members: '
                        'it ended with members still running')
            return 'join finished although a member of the group is still running'
        if obs['late_add'] == 'added':
            return ('a task could be added after join had finished' +
                    (' (the joining task was cancelled; every member had finished, the group was not marked joined)' if not je['joined'] else ''))
        return None

    def extra_checks(self, ctx):
        """another task (a supervisor) calls cancel_remaining() on the group and may give up waiting for it, while or before the
        group is joined: the members it cancelled are still members - join waits for them (oracle only: the model has no label
        for a foreign cancel_remaining)"""
        from harness.core import Failure
        rng = ctx['rng']
        out, n = [], 0
        for i in range(60 if ctx['tier'] == 'quick' else 600):
            nm = rng.randrange(1, 4)
            members = [{'react': rng.choice(['slow', 'slow', 'reraise', 'swallow']), 'daemon': False} for _ in range(nm)]
            if rng.random() < 0.3:
                members.append({'react': rng.choice(['slow', 'reraise']), 'daemon': True})
            acts = [['tick']] * rng.randrange(0, 4) + [['cancelrem']] + [['tick']] * rng.randrange(0, 6)
            if rng.random() < 0.6:
                acts += [['abandonrem']] + [['tick']] * rng.randrange(0, 4)
            acts += [['start']] + [['tick']] * rng.randrange(2, 12)
            for _ in range(4):
                acts += [['finish2', rng.randrange(4)]] + [['tick']] * rng.randrange(1, 8)
            acts += [['tick']] * 30
            case = {'policy': rng.choice(['all', 'any', 'object', 'none']), 'retain': False, 'init': [],
                    'mode': rng.choice(['join', 'aexit', 'aexit_exc']), 'members': members, 'actions': acts}
            obs = tc.run_case(case)
            n += 1
            cl = self.oracle(case, obs)
            if cl and not self.classify(case, obs, cl):
                out.append(Failure(case, {k: obs[k] for k in ('join_end', 'final', 'joined', 'late_add', 'trace')}, cl))
                if len(out) >= 2:
                    break
        ctx['extra_evals'] += n
        ctx['notes'].append(f'groups on which another task calls cancel_remaining() (and may abandon the call) around the join: {n} runs')
        # "any number of members": groups of every size up to 150 (and a few beyond a thousand) on a plain event loop, ended in each way
        ns = 0
        sizes = list(range(1, 151, 1 if ctx['tier'] != 'quick' else 7)) + [31, 32, 33, 63, 64, 65, 127, 128, 129, 1025, 1100]
        for nm in sizes:
            for how in ('body_raises', 'clean_exit', 'member_fails', 'body_cancel_remaining'):
                o = big_group(nm, how)
                ns += 1
                bad = None
                if o.get('escaped') not in (None, 'KeyError' if how == 'body_raises' else None):
                    bad = f"{o['escaped']} escaped the group"
                elif o['still_running'] or o['never_cancelled_running']:
                    bad = f"{o['still_running']} members still running when the block was left"
                elif not o['joined']:
                    bad = 'the group was not marked joined'
                elif o['late_add'] == 'added':
                    bad = 'a task could be added after the group was left'
                if bad:
                    out.append(Failure({'kind': 'big_group', 'members': nm, 'ended_by': how}, o, f'a group of {nm} members ended by {how}: {bad}'))
                    break
            if len(out) >= 3:
                break
        # two tasks join the same group (join() / leaving the context manager); one of them is cancelled while it waits: the
        # group's tasks are cancelled and waited for, whichever joiner it was
        for policy in (all, any, object):
            for second_via in ('join', 'aexit'):
                for cancel in ('second', 'first'):
                    o = two_joiners(policy, second_via, cancel)
                    ns += 1
                    if o['still_running'] or not o['joined'] or o['late_add'] == 'added':
                        out.append(Failure({'kind': 'two_joiners', 'policy': getattr(policy, '__name__', str(policy)), 'second_joiner_via': second_via, 'cancelled': cancel}, o,
                                           f"two tasks were joining the group; the {cancel} one was cancelled while it waited and its join ended with {o['still_running']} "
                                           f"tasks of the group still running (joined = {o['joined']}, a later add was {o['late_add']})"))
        ctx['extra_evals'] += ns
        ctx['notes'].append(f'groups of 1..150 (and >1024) members on a plain event loop, ended by a raising body / clean exit / failing member / cancel_remaining in the body: {ns} runs')
        return out

    def classify(self, case, obs, clause):
        if isinstance(case, dict) and case.get('kind') in ('big_group', 'two_joiners'):
            return None
        je = obs['join_end'] or {}
        if 'joining task was cancelled while' in clause:
            return 'F12'
        labs = [lab for lab, _ in obs.get('trace', ())]
        first_pass = next((i for i, lab in enumerate(labs) if lab[0] == 'run' and lab[1] == ['J'] and len(lab) > 3 and lab[3] and lab[2]), None)
        if 'the group was not marked joined' in clause and first_pass is not None and any(
                lab[0] == 'cancelJ' for lab in labs[first_pass:]):
            # the same defect seen a moment later: the joining task was cancelled while join was already waiting for the members
            # it had cancelled, join ended at once (joined stays False); by the time the joining task had finished so had they
            return 'F12'
        if 'still running' in clause and any(int(t) >= 1000 for t in map(str, je.get('undone', [])) if str(t).isdigit()):
            return 'F11'
        return None

    def nontrivial(self, case, obs):
        return len(case['members']) >= 3 and obs['join_end'] is not None

    def histogram(self, case, obs):
        je = obs['join_end']
        h = ['policy=' + case['policy'], 'mode=' + case['mode'], 'join_ended' if je else 'join_not_ended']
        if je:
            h.append('joiner_cancelled' if je['joiner_cancelled'] else 'joiner_returned')
        h.append('labels~%d' % (10 * (len(obs['trace']) // 10)))
        return h


def big_group(nm, how):
    """a group of nm members (every ninth a daemon, some slow to wind up) left through the context manager"""
    import asyncio
    from aiorpcx import TaskGroup
    info = {}

    async def member(i):
        try:
            if how == 'member_fails' and i == 0:
                await asyncio.sleep(0.01)
                raise ValueError('member failed')
            await asyncio.sleep(0.01 if how == 'clean_exit' else 3600)
        except asyncio.CancelledError:
            if i % 5 == 3:
                await asyncio.sleep(0.002)       # slow to wind up
            raise

    async def main():
        g = TaskGroup()
        tasks = []
        try:
            async with g:
                for i in range(nm):
                    tasks.append(await g.spawn(member(i), daemon=(i % 9 == 8)))
                await asyncio.sleep(0.001)
                if how == 'body_raises':
                    raise KeyError('body')
                if how == 'body_cancel_remaining':
                    await g.cancel_remaining()
                if how == 'member_fails':
                    await asyncio.sleep(0.05)
            info['escaped'] = None
        except BaseException as e:
            info['escaped'] = type(e).__name__
        info['still_running'] = sum(1 for t in tasks if not t.done())
        info['never_cancelled_running'] = sum(1 for t in tasks if not t.done() and not t.cancelling())
        info['joined'] = g.joined
        try:
            t = await g.spawn(asyncio.sleep(0))
            info['late_add'] = 'added'
            t.cancel()
        except RuntimeError:
            info['late_add'] = 'refused'
        rest = [t for t in asyncio.all_tasks() if t is not asyncio.current_task()]
        for t in rest:
            t.cancel()
        await asyncio.gather(*rest, return_exceptions=True)
    loop = asyncio.new_event_loop()
    try:
        loop.run_until_complete(asyncio.wait_for(main(), 20))
    except Exception as e:
        info['harness'] = repr(e)
        info.setdefault('escaped', type(e).__name__)
        info.setdefault('still_running', -1)
        info.setdefault('never_cancelled_running', -1)
        info.setdefault('joined', None)
        info.setdefault('late_add', None)
    finally:
        loop.close()
    return info


def two_joiners(policy, second_via, cancel):
    import asyncio
    from aiorpcx import TaskGroup
    info = {}

    async def member(i):
        await asyncio.sleep(3600)

    async def main():
        g = TaskGroup(wait=policy)
        tasks = [await g.spawn(member(i), daemon=(i == 3)) for i in range(4)]

        async def j1():
            await g.join()

        async def j2():
            if second_via == 'join':
                await g.join()
            else:
                async with g:
                    pass
        t1 = asyncio.ensure_future(j1())
        await asyncio.sleep(0.01)
        t2 = asyncio.ensure_future(j2())
        await asyncio.sleep(0.01)
        victim = t2 if cancel == 'second' else t1
        victim.cancel()
        await asyncio.wait([victim], timeout=5)
        info['cancelled_joiner_finished'] = victim.done()
        info['still_running'] = sum(1 for t in tasks if not t.done())
        info['joined'] = g.joined
        try:
            t = await g.spawn(asyncio.sleep(0))
            info['late_add'] = 'added'
        except RuntimeError:
            info['late_add'] = 'refused'
        rest = [t for t in asyncio.all_tasks() if t is not asyncio.current_task()]
        for t in rest:
            t.cancel()
        await asyncio.gather(*rest, return_exceptions=True)
    loop = asyncio.new_event_loop()
    try:
        loop.run_until_complete(asyncio.wait_for(main(), 30))
    finally:
        loop.close()
    return info


PROP = C09()
