"""C02 - every incoming request is answered exactly once under its own id (model/Conn.v)."""
import json
from harness.core import Prop
from harness import jsonvals as jv
from harness.props import conn_common as cm

IDS = [0, 1, 2, 7, 'a', '', 'abc', 1.5, 10 ** 20, -3, True, float('inf'), float('-inf')]      # (1e999 reads as inf)


def member(rng, pname, kind):
    two = pname != 'v1'
    d = {'jsonrpc': '2.0'} if two else {}
    if kind == 'req':
        d.update({'method': rng.choice(['m', 'x.y']), 'id': rng.choice(IDS)})
        if not two or rng.random() < 0.6:
            d['params'] = rng.choice([[], [1], ['a', None]])
    elif kind == 'notif':
        d.update({'method': 'n'})
        if not two:
            d.update({'params': [], 'id': None})
    else:
        bad = rng.choice(['nomethodtype', 'badparams', 'badid', 'nojsonrpc', 'scalar', 'resultshape', 'errorshape'])
        if bad in ('resultshape', 'errorshape'):     # looks like a response: no method
            d['id'] = rng.choice(IDS)
            d['result' if bad == 'resultshape' else 'error'] = 1 if bad == 'resultshape' else {'code': 1, 'message': 'm'}
            return d
        if bad == 'scalar':
            return rng.choice([5, 'x', None, [1]])
        d.update({'method': 'm', 'id': rng.choice(IDS)})
        if bad == 'nomethodtype':
            d['method'] = 5
        elif bad == 'badparams':
            d['params'] = 'str'
        elif bad == 'badid':
            d['id'] = rng.choice([[1], {'a': 1}])
        elif bad == 'nojsonrpc':
            d.pop('jsonrpc', None)
            if not two:
                d['params'] = 7
    return d


def invalid_for(pname, m):
    """is this member invalid for the protocol (-> an error entry)?"""
    if not isinstance(m, dict):
        return True
    if pname in ('v2', 'auto') and m.get('jsonrpc') != '2.0':
        return True
    if 'id' in m and isinstance(m['id'], (list, dict)):
        return True
    if not isinstance(m.get('method'), str):
        return True
    p = m.get('params', [])
    if not isinstance(p, (list, dict)):
        return True
    return False


class C02(Prop):
    id = 'C02'
    coq_header = cm.HEADER
    case_type = cm.CASE_TYPE
    check_fn = 'conn_ok'
    sizes = {'quick': 600, 'thorough': 10000}
    shard = 50
    rule = ('single requests, notifications and batches of <= 8 members (requests, notifications, invalid members in any '
            'positions, duplicate ids, every id type the protocol admits) received by the real connection; every request is '
            'then answered once through its send_result closure, in a random order (thorough: all k! orders for k <= 5), '
            'with results sized around max_response_size; the returned messages are parsed and compared with the model '
            '(ids, results / error codes, batch composition); non-trivial = batch with >= 2 requests; distinct = distinct history')

    def corpus(self):
        f9 = [{'jsonrpc': '2.0', 'method': 'n'}, {'jsonrpc': '2.0', 'method': 5, 'id': 1}]
        out = [{'proto': 'v2', 'ops': [['receive', list(json.dumps(f9).encode())]],
                'meta': [{'kind': 'batch', 'nreq': 0, 'nbad': 1, 'nnotif': 1, 'ids': []}]}]
        # batch responses whose size is within a few bytes of max_response_size, every offset -8..+8 (the accounting of
        # separators and brackets decides which entry is replaced)
        for pname, k, rs in (('v2', 3, 10), ('loose', 2, 1), ('v2', 1, 25)):
            ms = [{'jsonrpc': '2.0', 'method': 'm', 'id': i + 1} for i in range(k)]
            entry = [len(json.dumps({'jsonrpc': '2.0', 'result': 'r' * rs, 'id': i + 1}, separators=(',', ':'))) for i in range(k)]
            total = sum(entry) + 2 * (k - 1) + 2
            for off in range(-8, 9):
                ops = [['set_max', total + off], ['receive', list(json.dumps(ms).encode())]]
                meta = [None, {'kind': 'batch', 'nreq': k, 'nbad': 0, 'nnotif': 0, 'ids': [m['id'] for m in ms], 'b': 0}]
                for i in range(k):
                    ops.append(['send_result', i, ['res', 'r' * rs]])
                    meta.append({'kind': 'reply', 'id': i + 1, 'b': 0, 'res': ['res', 'r' * rs]})
                out.append({'proto': pname, 'ops': ops, 'meta': meta})
        return out

    def generate(self, rng, n, tier):
        import itertools
        for _ in range(n):
            pname = rng.choice(['v2', 'v2', 'loose', 'v1', 'auto'])
            ops, meta = [], []
            mx = rng.choice([0, 0, 60, 90, 150, rng.randrange(40, 200), rng.randrange(40, 200)])
            ops.append(['set_max', mx])
            meta.append(None)
            auto_first_batch = pname == 'auto' and rng.random() < 0.35
            if pname == 'auto' and not auto_first_batch:
                # auto-detection settles on the first message: make it a well-formed 2.0 notification
                ops.append(['receive', list(b'{"jsonrpc":"2.0","method":"hello"}')])
                meta.append({'kind': 'single', 'isreq': False, 'id': None})
            if auto_first_batch:
                # ... or the first message is a batch of 2.0 requests with an invalid member that looks like 1.0 (a stray 1.0
                # response, a "jsonrpc":"1.0" object) in front, in the middle or at the end: 2.0 is preferred
                stray = rng.choice([{'jsonrpc': '1.0', 'method': 'old', 'params': [], 'id': 77}, {'result': 1, 'error': None, 'id': 78},
                                    {'jsonrpc': '1.0'}])
                ms = [member(rng, 'v2', 'req') for _ in range(rng.randrange(1, 4))]
                ms.insert(rng.choice([0, 0, len(ms), rng.randrange(len(ms) + 1)]), stray)
                ops.append(['receive', list(json.dumps(ms).encode())])
                reqs = [m for m in ms if not invalid_for('v2', m) and m.get('id') is not None and 'id' in m]
                nbad = sum(1 for m in ms if invalid_for('v2', m))
                meta.append({'kind': 'batch', 'nreq': len(reqs), 'nbad': nbad, 'nnotif': len(ms) - len(reqs) - nbad, 'ids': [m['id'] for m in reqs], 'b': 0})
            nreq_total = 0
            pending = []      # (request index, id, batch number or None)
            bno = 0
            if auto_first_batch:
                for m in reqs:
                    pending.append((nreq_total, m['id'], 0))
                    nreq_total += 1
                bno = 1
            for _ in range(rng.randrange(1, 4)):
                if pname != 'v1' and rng.random() < 0.7:
                    kinds = [rng.choice(['req', 'req', 'req', 'notif', 'bad']) for _ in range(rng.randrange(1, 8))]
                    ms = [member(rng, pname, k) for k in kinds]
                    if all(isinstance(m, dict) and ('result' in m or 'error' in m) for m in ms):
                        ms.append(member(rng, pname, 'req'))      # otherwise it is a response batch, not a request batch
                    ops.append(['receive', list(json.dumps(ms).encode())])
                    reqs = [m for m in ms if not invalid_for(pname, m) and m.get('id') is not None and 'id' in m]
                    nbad = sum(1 for m in ms if invalid_for(pname, m))
                    nnot = len(ms) - len(reqs) - nbad
                    meta.append({'kind': 'batch', 'nreq': len(reqs), 'nbad': nbad, 'nnotif': nnot, 'ids': [m['id'] for m in reqs], 'b': bno})
                    for m in reqs:
                        pending.append((nreq_total, m['id'], bno))
                        nreq_total += 1
                    bno += 1
                else:
                    k = rng.choice(['req', 'req', 'notif'])
                    m = member(rng, pname, k)
                    ops.append(['receive', list(json.dumps(m).encode())])
                    isreq = k == 'req' and m.get('id') is not None
                    meta.append({'kind': 'single', 'isreq': isreq, 'id': m.get('id')})
                    if isreq:
                        pending.append((nreq_total, m['id'], None))
                        nreq_total += 1
            rng.shuffle(pending)
            for idx, rid, b in pending:
                size = rng.choice([1, 10, 40, 80, 200, rng.randrange(1, 130), rng.randrange(1, 130), rng.randrange(1, 130)])
                res = ['res', 'r' * size] if rng.random() < 0.7 else ['err', rng.choice([1, -32000]), 'e' * size]
                if rng.random() < 0.12:
                    res = ['bad', rng.choice(['set', 'hugeint', 'circular', 'deep', 'excobj', 'excobj', 'excobj2'])]     # the handler's result cannot be JSON-encoded
                ops.append(['send_result', idx, res])
                meta.append({'kind': 'reply', 'id': rid, 'b': b, 'res': res})
            yield {'proto': pname, 'ops': ops, 'meta': meta}

    def run_impl(self, case):
        return cm.run_ops(case['proto'], case['ops'])

    def coq_case(self, case, obs):
        return cm.coq_case(case['proto'], case['ops'], obs)

    def coq_show(self, case, obs):
        return cm.show_term(case['proto'], case['ops'], obs)

    def oracle(self, case, obs):
        mx = 0
        batches = {}       # b -> {'nreq','nbad','left', 'ids'}
        for op, me, o in zip(case['ops'], case['meta'], obs['obs']):
            if op[0] == 'set_max':
                mx = op[1]
                continue
            if 'escape' in o:
                return 'exception escaped: ' + o['escape']
            if me['kind'] == 'single':
                if 'protoerr' in o:
                    return 'a well-formed request was rejected'
                continue
            if me['kind'] == 'batch':
                if me['nreq'] == 0 and me['nnotif'] == 0:
                    # only invalid members: immediate batch of error entries
                    if 'protoerr' not in o or o['reply'] is None:
                        return 'a batch of invalid members was not answered with its error entries'
                    rep = json.loads(bytes(o['reply']).decode())
                    if len(rep) != me['nbad']:
                        return 'wrong number of error entries for invalid batch members'
                elif me['nreq'] == 0 and me['nbad'] > 0:
                    return 'a batch holding notifications and invalid members gets no response: the error entries are never sent'
                elif me['nreq'] == 0:
                    if 'protoerr' in o:
                        return 'a batch of notifications was answered'
                else:
                    batches[me['b']] = {'nreq': me['nreq'], 'nbad': me['nbad'], 'left': me['nreq'], 'ids': list(me['ids']), 'sent': []}
                continue
            # reply
            if 'protoerr' in o:
                return 'send_result raised'
            if o.get('unencodable_accepted'):
                return 'send_result accepted a result that cannot be encoded'
            msg = o['msg']
            if me['b'] is None:
                if msg is None:
                    return 'a request got no response'
                rep = json.loads(bytes(msg).decode())
                if rep.get('id') != me['id'] or isinstance(rep, list):
                    return 'response does not carry the request id'
                full = response_len(case['proto'], me)
                if mx and full > mx:
                    if 'error' not in rep or rep['error'] is None or rep['error'].get('code') != -32600:
                        return 'oversized response not replaced by an error response with the same id'
                else:
                    if not same_outcome(rep, me['res']):
                        return 'response does not carry the result supplied'
            else:
                b = batches[me['b']]
                b['left'] -= 1
                b['sent'].append(me)
                if b['left'] > 0:
                    if msg is not None:
                        return 'batch response sent before every member had its result'
                else:
                    if msg is None:
                        return 'no batch response although every member has its result'
                    rep = json.loads(bytes(msg).decode())
                    if not isinstance(rep, list) or len(rep) != b['nreq'] + b['nbad']:
                        return 'batch response does not hold one entry per request plus one error entry per invalid member'
                    entries = rep[b['nbad']:]
                    size = 0
                    for e, m in zip(entries, b['sent']):
                        if e.get('id') != m['id'] or type(e.get('id')) is not type(m['id']):
                            return 'batch response entry under the wrong id'
                        # size accounting: an entry that takes the response over the maximum is replaced
                        size += response_len(case['proto'], m) + 2
                        replaced = isinstance(e.get('error'), dict) and e['error'].get('code') == -32600 \
                            and not (m['res'][0] == 'err' and len(m['res']) > 1 and m['res'][1] == -32600)
                        if mx and size > mx and not replaced:
                            return ('a batch response grew over the maximum response size without the entry that did so '
                                    'being replaced by an error entry')
                        if not (mx and size > mx) and not same_outcome(e, m['res']):
                            return 'batch response entry does not carry the result supplied'
        for b in batches.values():
            if b['left'] != 0:
                return None
        return None

    def classify(self, case, obs, clause):
        if 'error entries are never sent' in clause:
            return 'F9'
        return None

    def extra_checks(self, ctx):
        """what a real RPCSession WRITES for batches that need no handler at all (every member invalid): the batch response -
        one error entry per member - is complete on receipt and it is the session that has to send it"""
        import asyncio
        from harness.core import Failure
        from harness import sessions
        from aiorpcx import session, jsonrpc
        out, n = [], 0
        batches = [[1, 2, 3], ['x'], [None], [{'jsonrpc': '2.0', 'method': 5, 'id': 1}],
                   [{'jsonrpc': '2.0', 'method': 'm', 'params': 7, 'id': 2}, 5], [[], {}]]
        for pname in ('v2', 'loose', 'auto'):
            for transport in ('rs', 'us'):
                loop = sessions.new_loop()
                try:
                    class S(session.RPCSession):
                        def default_connection(self):
                            return jsonrpc.JSONRPCConnection(cm.cc.proto_class(pname))

                        async def handle_request(self, request):
                            return 'pong'
                    proto, ft, s = sessions.attach(S, 'server', transport)

                    async def main():
                        await sessions.settle(3)
                        res = []
                        if pname == 'auto':
                            proto.data_received(b'{"jsonrpc":"2.0","method":"hello"}\n')
                            await asyncio.sleep(0.05)
                        for b in batches:
                            n0 = len(ft.written)
                            proto.data_received(json.dumps(b).encode() + b'\n')
                            await asyncio.sleep(0.1)
                            res.append(sessions.sent_messages(ft, n0))
                        n0 = len(ft.written)
                        proto.data_received(b'{"jsonrpc":"2.0","method":"ping","id":4242}\n')
                        await asyncio.sleep(0.1)
                        return res, sessions.sent_messages(ft, n0)
                    res, probe = loop.run_until_complete(main())
                finally:
                    sessions.close_loop(loop)
                for b, msgs in zip(batches, res):
                    n += 1
                    ok = (len(msgs) == 1 and isinstance(msgs[0], list) and len(msgs[0]) == len(b)
                          and all(isinstance(e, dict) and isinstance(e.get('error'), dict) and 'id' in e for e in msgs[0]))
                    if not ok:
                        out.append(Failure({'kind': 'session_batch', 'proto': pname, 'transport': transport, 'batch': jv.to_plain(b)},
                                           {'written': jv.to_plain(msgs)},
                                           'a request batch whose members are all invalid was not answered with exactly one batch response '
                                           'holding one error entry per member'))
                        break
                if len(out) >= 2:
                    break
            if len(out) >= 2:
                break
        ctx['extra_evals'] += n
        ctx['notes'].append(f'all-invalid request batches through a real RPCSession (what is written to the transport): {n}')
        # a handler that answers and hangs up (ReplyAndDisconnect), a request refused for excessive cost: the one response is
        # written before the connection is closed - also when the send buffer is full at that moment and the write has to wait
        from aiorpcx import ReplyAndDisconnect, RPCError
        nd = 0
        for transport in ('rs', 'us'):
            for how in ('result', 'error', 'excessive'):
                for full_buffer in (False, True):
                    for batch in (False, True):
                        loop = sessions.new_loop()
                        try:
                            class S2(session.RPCSession):
                                cost_decay_per_sec = 0

                                async def handle_request(self, request):
                                    if request.method == 'bye':
                                        raise ReplyAndDisconnect('last words' if how == 'result' else RPCError(7, 'go away'))
                                    return 'pong'
                            proto, ft, s2 = sessions.attach(S2, 'server', transport)

                            async def main2():
                                await sessions.settle(3)
                                if how == 'excessive':
                                    s2.cost = s2.cost_hard_limit + 1000
                                    s2.recalc_concurrency()
                                if full_buffer:
                                    proto.pause_writing()
                                one = '{"jsonrpc":"2.0","method":"bye","id":31}'
                                proto.data_received((('[' + one + ']') if batch else one).encode() + b'\n')
                                await asyncio.sleep(0.3)
                                if full_buffer:
                                    proto.resume_writing()
                                await asyncio.sleep(40)
                                msgs = sessions.sent_messages(ft, 0)
                                flat = [e for m in msgs for e in (m if isinstance(m, list) else [m])]
                                return {'responses_with_id_31': sum(1 for e in flat if isinstance(e, dict) and e.get('id') == 31),
                                        'written': jv.to_plain(msgs)[:4], 'closed': ft.closing or ft.lost}
                            o2 = loop.run_until_complete(main2())
                        finally:
                            sessions.close_loop(loop)
                        nd += 1
                        if o2['responses_with_id_31'] != 1 or not o2['closed']:
                            out.append(Failure({'kind': 'reply_and_disconnect', 'transport': transport, 'how': how, 'send_buffer_full': full_buffer, 'in_batch': batch}, o2,
                                               f"a request answered by hanging up ({how}{', send buffer full at that moment' if full_buffer else ''}) got "
                                               f"{o2['responses_with_id_31']} responses carrying its id (closed: {o2['closed']}): exactly one, then the close"))
        # (a) more slow requests than slots: those still QUEUED for a slot when the processing time limit expires are answered
        # (server busy) exactly once each, like the ones that time out inside their handler - alone and as batch members;
        # (b) over-long lines (dropped by the framer) between requests: every request before, between and after them is
        # answered exactly once
        from aiorpcx import framing
        for transport in ('rs', 'us'):
            for scenario in ('queued_timeouts', 'queued_timeouts_batch', 'overlong_between', 'overlong_first'):
                loop = sessions.new_loop()
                try:
                    class S3(session.RPCSession):
                        initial_concurrent = 2
                        processing_timeout = 1.0
                        cost_hard_limit = 0

                        async def handle_request(self, request):
                            if request.method == 'slow':
                                await asyncio.sleep(5)
                            return 'pong'
                    proto, ft, s3 = sessions.attach(S3, 'server', transport, framer=framing.NewlineFramer(max_size=300))

                    def req(m, i):
                        return '{"jsonrpc":"2.0","method":"%s","id":%d}' % (m, i)

                    async def main3():
                        await sessions.settle(3)
                        ids = []
                        if scenario == 'queued_timeouts':
                            for i in range(1, 7):
                                proto.data_received(req('slow', i).encode() + b'\n')
                                ids.append(i)
                        elif scenario == 'queued_timeouts_batch':
                            proto.data_received(('[' + ','.join(req('slow', i) for i in range(1, 6)) + ']').encode() + b'\n')
                            ids += list(range(1, 6))
                        else:
                            if scenario == 'overlong_between':
                                proto.data_received(req('ping', 1).encode() + b'\n')
                                ids.append(1)
                                await asyncio.sleep(0.1)
                                proto.data_received(('[' + req('ping', 2) + ',' + req('ping', 3) + ']').encode() + b'\n')
                                ids += [2, 3]
                                await asyncio.sleep(0.1)
                            for k in range(2):
                                proto.data_received(b'x' * 350)
                                await asyncio.sleep(0.1)
                                proto.data_received(b'y' * 100 + b'\n')
                                await asyncio.sleep(0.1)
                                proto.data_received(req('ping', 10 + k).encode() + b'\n')
                                ids.append(10 + k)
                                await asyncio.sleep(0.1)
                        await asyncio.sleep(20)
                        proto.data_received(req('ping', 99).encode() + b'\n')
                        ids.append(99)
                        await asyncio.sleep(1)
                        msgs = sessions.sent_messages(ft, 0)
                        flat = [e for m in msgs for e in (m if isinstance(m, list) else [m])]
                        return {'responses_per_id': {str(i): sum(1 for e in flat if isinstance(e, dict) and e.get('id') == i) for i in ids},
                                'closed': ft.closing or ft.lost, 'loop_alive': not proto._process_messages_task.done()}
                    o3 = loop.run_until_complete(main3())
                finally:
                    sessions.close_loop(loop)
                nd += 1
                wrong = {i: k for i, k in o3['responses_per_id'].items() if k != 1}
                if wrong and not o3['closed']:
                    out.append(Failure({'kind': 'session_stream', 'scenario': scenario, 'transport': transport}, o3,
                                       f"{scenario}: requests were not answered exactly once each (responses per id, where not 1: {wrong})"))
        ctx['extra_evals'] += nd
        ctx['notes'].append(f'reply-and-disconnect / excessive-cost refusals through a real RPCSession, send buffer free and full: {nd} scenarios')
        return out[:4]

    def nontrivial(self, case, obs):
        return any(m and m.get('kind') == 'batch' and m['nreq'] >= 2 for m in case['meta'])

    def histogram(self, case, obs):
        h = ['proto=' + case['proto']]
        for m in case['meta']:
            if m and m['kind'] == 'batch':
                h.append('batch_req%d_bad%d_notif%d' % (min(m['nreq'], 3), min(m['nbad'], 2), min(m['nnotif'], 2)))
        return h


def response_len(pname, me):
    from aiorpcx import jsonrpc
    P = {'v1': jsonrpc.JSONRPCv1}.get(pname, jsonrpc.JSONRPCv2)
    r = me['res']
    if r[0] == 'bad':
        r = ['err', -32603, 'internal server error']
    val = r[1] if r[0] == 'res' else jsonrpc.RPCError(r[1], r[2])
    return len(P.response_message(val, me['id']))


def same_outcome(rep, res):
    if res[0] == 'bad':
        res = ['err', -32603, 'internal server error']
    if res[0] == 'res':
        return rep.get('result') == res[1]
    e = rep.get('error')
    return isinstance(e, dict) and e.get('code') == res[1] and e.get('message') == res[2]


PROP = C02()
