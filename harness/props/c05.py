"""C05 - no byte sequence from the peer can crash or wedge message processing."""
import asyncio, json
from harness.core import Prop, Failure
from harness import jsonvals as jv, sessions
from harness.props import conn_common as cm, codec_common as cc

NASTY = [
    # strings holding a surrogate code point that is not half of a pair (valid JSON; the library echoes ids and values in replies)
    b'{"jsonrpc":"2.0","method":"ping","params":[],"id":"\\ud800"}', b'{"jsonrpc":"2.0","method":"m","params":"\\ud800","id":1}',
    b'{"method":"m","params":"x\\udfffy","id":2}', b'[{"jsonrpc":"2.0","method":"m","params":"\\ud800","id":1},{"jsonrpc":"2.0","method":"ping","id":"\\udc00\\ud800"}]',
    b'{"jsonrpc":"2.0","method":"\\ud800","id":3}',
    # ill-formed responses that also carry an unhashable id (the 1.0 class lets any id through)
    b'{"id":[1]}', b'{"result":1,"id":{"a":1}}', b'{"result":1,"error":2,"id":[]}', b'{"jsonrpc":"1.0","id":[1]}', b'{"error":null,"id":[[]]}',
    b'{"result":1,"error":null,"id":[]}', b'{"result":1,"error":null,"id":{"a":1}}', b'{"result":null,"error":"e","id":[[1]]}',
    b'[{"jsonrpc":"2.0","result":1,"id":1},{"jsonrpc":"2.0","result":2,"id":"a"}]',
    b'[{"jsonrpc":"2.0","result":1,"id":0},{"jsonrpc":"2.0","result":2,"id":null}]',
    b'[{"jsonrpc":"2.0","result":1,"id":null},{"jsonrpc":"2.0","result":2,"id":null}]',
    b'[{"jsonrpc":"2.0","error":{"code":-32700,"message":"Parse error"},"id":null},{"jsonrpc":"2.0","error":{"code":-32700,"message":"Parse error"},"id":null},'
    b'{"jsonrpc":"2.0","error":{"code":-32700,"message":"Parse error"},"id":null}]',
    b'[{"result":1,"id":null},{"result":2,"id":null}]', b'[{"jsonrpc":"2.0","result":1,"id":true},{"jsonrpc":"2.0","result":2,"id":false}]',
    b'{"result":null,"error":{"code":1e999,"message":"x"},"id":0}', b'{"result":null,"error":Infinity,"id":0}',
    b'{"result":null,"error":-Infinity,"id":0}', b'{"result":null,"error":{"code":NaN,"message":"x"},"id":0}', b'{"error":NaN,"id":0}',
    b'{"jsonrpc":"2.0","error":{"code":-1e999,"message":"x"},"id":0}', b'{"jsonrpc":"2.0","error":{"code":2.5,"message":"x"},"id":0}',
    b'[{"result":null,"error":{"code":1e999,"message":"x"},"id":0},{"result":1,"id":1}]',
    b'{"jsonrpc":[],"method":"echo","id":1}', b'{"jsonrpc":{},"method":"m"}', b'{"jsonrpc":[1],"result":1,"id":0}',
    b'[{"jsonrpc":{"a":1},"method":"m","id":1}]', b'{"jsonrpc":["2.0"],"method":"m","params":[],"id":2}', b'{"jsonrpc":null,"method":"m","id":3}',
    b'[{"result":1,"id":0},{"result":2,"id":"0"}]', b'[{"result":1,"id":1.5},{"result":2,"id":true}]',
    b'[' * 100000, b'[' * 3000 + b']' * 3000, b'{"a":' * 5000 + b'1' + b'}' * 5000,
    b'{"jsonrpc":"2.0","id":' + b'9' * 5000 + b',"result":1}', b'{"jsonrpc":"2.0","method":"m","params":[' + b'1' * 4301 + b'],"id":1}',
    b'-' + b'8' * 6000, b'{"jsonrpc":"2.0","method":"m","id":NaN}',
    b'{"jsonrpc":"2.0","result":1,"id":Infinity}', b'{"jsonrpc":"2.0","result":1,"id":-0.0}', b'{"jsonrpc":"2.0","result":1,"id":100.0}',
    b'[1,2,3]', b'[[]]', b'[{}]', b'[null]', b'["x",{"jsonrpc":"2.0","method":"m"}]', b'{"method":5,"id":1}', b'{"method":"m","params":5,"id":1}',
    b'{"jsonrpc":"2.0","method":"m","params":{"a":1},"id":{"x":1}}', b'{"jsonrpc":"2.0","method":"m","id":[1]}',
    b'{"jsonrpc":2.0,"method":"m","id":1}', b'{"jsonrpc":"2.0","error":{"code":"x","message":1},"id":0}', b'{"jsonrpc":"2.0","error":[],"id":0}',
    b'{"jsonrpc":"2.0","result":1,"error":{"code":1,"message":"m"},"id":0}', b'{"jsonrpc":"2.0","id":0}', b'{"id":0}', b'{}', b'"str"', b'null', b'true', b'17',
    b'[{"jsonrpc":"2.0","result":1}]', b'[{"jsonrpc":"2.0","result":1,"id":[1]}]', b'[{"result":1,"id":0},5]', b'[{"result":1,"id":0},{"method":"m"}]',
]


def response_like(b):
    """do the bytes look like a response (or a response batch)?  Only then may a ProtocolError come without a reply"""
    try:
        p = json.loads(b.decode('utf-8', 'surrogatepass'))
    except Exception:
        return False

    if isinstance(p, list):
        # an array is a response batch only if every member is an object that reports a result or an error
        return bool(p) and all(isinstance(x, dict) and ('result' in x or 'error' in x) for x in p)
    # a single object that names no method can only be a response (however ill-formed)
    return isinstance(p, dict) and 'method' not in p


def session_survives(msgs, pname='v2'):
    """feed the messages to a serving RPCSession, then a valid request: answered, or connection closed?"""
    from aiorpcx import session, jsonrpc
    loop = sessions.new_loop()
    try:
        class S(session.RPCSession):
            async def handle_request(self, request):
                return 'pong'

            def default_connection(self):
                return jsonrpc.JSONRPCConnection(cc.proto_class(pname))
        proto, ft, s = sessions.attach(S, kind='server')

        async def main():
            for m in msgs:
                proto.data_received(bytes(m) + b'\n')
                await asyncio.sleep(0.05)
            n0 = len(ft.written)
            # valid under every protocol class (auto-detection may have settled on any of them)
            probe = b'{"jsonrpc":"2.0","method":"ping","params":[],"id":4242}' if pname != 'v1' else b'{"method":"ping","params":[],"id":4242}'
            proto.data_received(probe + b'\n')
            await asyncio.sleep(1.0)
            answered = any(isinstance(x, dict) and x.get('id') == 4242 and x.get('result') == 'pong'
                           for x in sessions.sent_messages(ft, n0))
            task_alive = not proto._process_messages_task.done()
            return {'answered': answered, 'closed': ft.closing or ft.lost, 'loop_alive': task_alive,
                    'loop_exc': loop.exc_repr() if hasattr(loop, 'exc_repr') else None, 'errors': s.errors}
        return loop.run_until_complete(main())
    finally:
        sessions.close_loop(loop)


def session_survives_stream(junk1, junk2, cut, chunk, pname='v2', max_size=200):
    """an over-long line (junk1 bytes, delivered in `chunk`-byte pieces), more of it (junk2 bytes, no newline), then its
    newline followed in the same piece by the first `cut` bytes of a valid request, the rest of the request after that:
    is the request answered (or the connection closed)?  The framer's limit is lowered to `max_size` to keep this small."""
    from aiorpcx import session, jsonrpc, framing
    loop = sessions.new_loop()
    try:
        class S(session.RPCSession):
            async def handle_request(self, request):
                return 'pong'

            def default_connection(self):
                return jsonrpc.JSONRPCConnection(cc.proto_class(pname))
        proto, ft, s = sessions.attach(S, kind='server', framer=framing.NewlineFramer(max_size=max_size))

        async def main():
            probe = (b'{"jsonrpc":"2.0","method":"ping","params":[],"id":4242}' if pname != 'v1' else b'{"method":"ping","params":[],"id":4242}') + b'\n'
            data = b'x' * junk1
            pieces = [data[i:i + chunk] for i in range(0, len(data), chunk)]
            tail = b'y' * junk2
            pieces += [tail[i:i + chunk] for i in range(0, len(tail), chunk)]
            pieces += [b'\n' + probe[:cut], probe[cut:]]
            for piece in pieces:
                if piece:
                    proto.data_received(piece)
                    await asyncio.sleep(0.01)
            await asyncio.sleep(1.0)
            answered = any(isinstance(x, dict) and x.get('id') == 4242 and x.get('result') == 'pong' for x in sessions.sent_messages(ft, 0))
            # a second request, to tell "swallowed one request" from "wedged for good"
            n0 = len(ft.written)
            proto.data_received(probe.replace(b'4242', b'4243'))
            await asyncio.sleep(1.0)
            later = any(isinstance(x, dict) and x.get('id') == 4243 for x in sessions.sent_messages(ft, n0))
            return {'answered': answered, 'closed': ft.closing or ft.lost, 'later_request_answered': later, 'errors': s.errors,
                    'loop_alive': not proto._process_messages_task.done()}
        return loop.run_until_complete(main())
    finally:
        sessions.close_loop(loop)


class C05(Prop):
    id = 'C05'
    coq_header = cm.HEADER
    case_type = cm.CASE_TYPE
    check_fn = 'conn_ok'
    sizes = {'quick': 600, 'thorough': 10000}
    shard = 40
    rule = ('for each protocol class and each connection state (nothing / singles / batches outstanding): a malformed-input '
            'stream (invalid UTF-8 at every position class, truncated and corrupted JSON, every JSON value shape as payload / '
            'id / member, wrong-typed members, nesting of 3000 and 100000, integers of 4301..6000 digits, unhashable ids, '
            'mixed-type ids in response batches) followed by a valid request; observed: exception class escaping '
            'receive_message, well-formedness of the error reply; session level: the same streams into a serving RPCSession '
            'followed by a probe request (answered, or connection closed), and byte streams not cut at message boundaries (an '
            'over-long line in pieces, the probe in pieces right behind it); non-trivial = a message that is not valid JSON-RPC; '
            'distinct = distinct (protocol, state, message)')

    def corpus(self):
        out = []
        for p in ('v1', 'v2', 'loose', 'auto'):
            for m in NASTY:
                if len(m) > 20000 and p != 'v2':
                    continue
                pre = [['send_request', 'a', []], ['send_request', 'b', []]]
                if p != 'v1':
                    pre.append(['send_batch', [['c', [], True], ['d', [], True]]])
                out.append({'proto': p, 'ops': pre + [['receive', list(m)],
                                                      ['receive', list(b'{"jsonrpc":"2.0","method":"ok","id":1}' if p != 'v1' else b'{"method":"ok","params":[],"id":1}')]]})
        return out

    def generate(self, rng, n, tier):
        for _ in range(n):
            p = rng.choice(['v1', 'v2', 'loose', 'auto'])
            ops = []
            for _ in range(rng.randrange(0, 4)):
                ops.append(['send_request', 'm', []])
            nreq = len(ops)
            if p != 'v1' and rng.random() < 0.5:
                second = rng.random() < 0.5
                ops.append(['send_batch', [['c', [], True], ['d', [], second], ['e', [], True]]])
                if rng.random() < 0.3:
                    # the batch's awaiter gives up, then the complete batch response arrives late
                    ids = [nreq, nreq + 1, nreq + 2] if second else [nreq, nreq + 1]
                    ops.append(['abandon', 0, True])
                    late = [dict({'jsonrpc': '2.0', 'id': i}, **rng.choice([{'result': i}, {'error': {'code': 3, 'message': 'x'}}])) for i in ids]
                    rng.shuffle(late)
                    ops.append(['receive', list(json.dumps(late).encode())])
            if nreq and rng.random() < 0.3:
                # a caller gives up, then a late response for its id arrives (result / error / malformed)
                j = rng.randrange(nreq)
                ops.append(['abandon', j])
                late = rng.choice([{'result': 7}, {'error': {'code': 5, 'message': 'late'}}, {}, {'result': 1, 'error': {'code': 1, 'message': 'x'}},
                                   {'error': 'boom'}])
                d = dict(late, id=j)
                if p != 'v1':
                    d['jsonrpc'] = '2.0'
                elif 'result' not in d or 'error' not in d:
                    d.setdefault('result', None)
                    d.setdefault('error', None)
                ops.append(['receive', list(json.dumps(d).encode())])
            for _ in range(rng.randrange(1, 4)):
                r = rng.random()
                if r < 0.3:
                    m = rng.choice(cc.MALFORMED + NASTY[:8] + NASTY[10:])
                else:
                    if r < 0.42:      # any mix of member values, or a well-formed message with another version member
                        v = cc.gen_payload(rng)
                        if rng.random() < 0.5:
                            v = cc.gen_valid_payload(rng)
                            if isinstance(v, dict):
                                v['jsonrpc'] = rng.choice(cc.MEMBER_VALUES['jsonrpc'])
                    else:
                        v = cc.gen_valid_payload(rng) if r < 0.6 else [cc.gen_valid_payload(rng) for _ in range(rng.randrange(0, 3))] if r < 0.8 \
                            else jv.gen_value(rng, 3)
                    try:
                        b = bytearray(json.dumps(v).encode())
                    except ValueError:
                        b = bytearray(b'null')
                    for _ in range(rng.randrange(0, 3)):
                        k = rng.randrange(len(b) + 1)
                        op = rng.random()
                        if op < 0.35 and b:
                            del b[min(k, len(b) - 1)]
                        elif op < 0.8:
                            b.insert(k, rng.choice(b'{}[],:"\\ 0-e.\x00\xff\x80\xc3nt'))
                        else:
                            b = b[:k]
                    m = bytes(b)
                ops.append(['receive', list(m)])
            ops.append(['receive', list(b'{"jsonrpc":"2.0","method":"ok","id":1}' if p != 'v1' else b'{"method":"ok","params":[],"id":1}')])
            yield {'proto': p, 'ops': ops}

    def run_impl(self, case):
        return cm.run_ops(case['proto'], case['ops'])

    def coq_case(self, case, obs):
        if any(len(op[1]) > 20000 for op in case['ops'] if op[0] == 'receive'):
            return None            # far beyond the nesting limit: oracle only (the model needs that much fuel)
        return cm.coq_case(case['proto'], case['ops'], obs)

    def coq_show(self, case, obs):
        return cm.show_term(case['proto'], case['ops'], obs)

    def oracle(self, case, obs):
        for op, o in zip(case['ops'], obs['obs']):
            if op[0] != 'receive':
                continue
            if 'escape' in o:
                return f"{o['escape']} escaped receive_message (only ProtocolError may)"
            if 'protoerr' in o and o['reply'] is None and not response_like(bytes(op[1])):
                return ('the bytes were not a response (neither an object without a method nor an array of objects reporting results / errors) '
                        'but the ProtocolError carries no error reply for the peer')
            if 'protoerr' in o and o['reply'] is not None:
                try:
                    rep = json.loads(bytes(o['reply']).decode())
                except ValueError:
                    return 'the error reply carried by the ProtocolError is not valid JSON'
                for e in (rep if isinstance(rep, list) else [rep]):
                    err = e.get('error') if isinstance(e, dict) else None
                    if not (isinstance(err, dict) and isinstance(err.get('code'), int) and isinstance(err.get('message'), str) and 'id' in e):
                        return 'the error reply carried by the ProtocolError is not a well-formed error response'
                    # ... in the wire format of THIS connection's protocol class: 1.0 responses carry result and error and no
                    # version tag, 2.0 responses the tag and the error alone (an auto-detecting connection may use either)
                    if case['proto'] == 'v1' and ('result' not in e or 'jsonrpc' in e):
                        return 'the error reply of a JSON-RPC 1.0 connection is not a 1.0 response (result and error members, no version tag)'
                    if case['proto'] in ('v2', 'loose') and (e.get('jsonrpc') != '2.0' or 'result' in e):
                        return 'the error reply of a JSON-RPC 2.0 connection is not a 2.0 response (version tag, error member alone)'
        return None

    def classify(self, case, obs, clause):
        return None

    def nontrivial(self, case, obs):
        return any('protoerr' in o or 'escape' in o for o in obs['obs'])

    def histogram(self, case, obs):
        h = ['proto=' + case['proto']]
        for op, o in zip(case['ops'], obs['obs']):
            if op[0] == 'receive':
                h.append('rx_' + ('escape' if 'escape' in o else 'protoerr%s' % ('_reply' if o.get('reply') else '') if 'protoerr' in o
                                  else 'completed' if 'completed' in o else 'items'))
        return h

    def extra_checks(self, ctx):
        out = []
        rng = ctx['rng']
        # (blank lines, lone CR, CRLF-terminated junk: what a framer-level change trips over)
        streams = [[b''], [b'\r'], [b'', b''], [b'\r', b''], [b'{}\r'], [b' '], [b'', b'\xff'], [b'[]\r', b'']] + [[m] for m in NASTY] + [[rng.choice(NASTY + cc.MALFORMED) for _ in range(3)] for _ in range(10 if ctx['tier'] == 'quick' else 120)]
        for msgs in streams:
            msgs = [m.replace(b'\n', b' ') for m in msgs]
            for p in (['v2'] if ctx['tier'] == 'quick' else ['v2', 'loose', 'auto', 'v1']):
                o = session_survives(msgs, p)
                ctx['extra_evals'] += 1
                ctx['extra_nontrivial'] += 1
                k = 'session_' + ('answered' if o['answered'] else 'closed' if o['closed'] else 'WEDGED')
                ctx['hist'][k] = ctx['hist'].get(k, 0) + 1
                if not o['answered'] and not o['closed']:
                    out.append(Failure({'kind': 'session', 'proto': p, 'msgs': [list(m[:200]) for m in msgs], 'lens': [len(m) for m in msgs]}, o,
                                       'after these messages the session neither answers a valid request nor has closed the connection'))
        # well-formed JSON that violates the protocol, with multi-byte characters lying across every offset from 40 to 330
        # (what a preview / log line of "the first N bytes" trips over)
        nm_ = 0
        for p in (['v2'] if ctx['tier'] == 'quick' else ['v2', 'loose', 'auto', 'v1']):
            for ch in ('\u00e9', '\u20ac', '\U0001f600'):
                for pad in range(len(ch.encode())):
                    for shape in ('request', 'response', 'batch'):
                        body = 'a' * pad + ch * (300 // len(ch.encode()))
                        msg = {'request': '{"jsonrpc":"2.0","method":5,"id":1,"x":"%s"}', 'response': '{"jsonrpc":"2.0","id":987,"result":"%s"}',
                               'batch': '["%s",5]'}[shape] % body
                        o = session_survives([msg.encode()], p)
                        nm_ += 1
                        ctx['extra_evals'] += 1
                        if not o['answered'] and not o['closed']:
                            out.append(Failure({'kind': 'multibyte_run', 'proto': p, 'char': ch, 'pad': pad, 'shape': shape, 'msg': msg[:80] + '...'}, o,
                                               'after a protocol-violating message holding a run of multi-byte characters the session neither answers a valid request nor has closed the connection'))
                            break
        ctx['notes'].append(f'protocol violations holding runs of 2-, 3- and 4-byte characters at every alignment: {nm_} messages through a serving session')
        # nesting at the edge of what the JSON decoder accepts: values that can just be decoded but - echoed in a reply one or
        # two levels further down - cannot be encoded any more.  Every depth around the decoder's limit, as id and as params
        import json as _json
        lo, hi = 1, 200000
        while lo < hi:
            mid = (lo + hi + 1) // 2
            try:
                _json.loads('[' * mid + ']' * mid)
                lo = mid
            except (RecursionError, ValueError):
                hi = mid - 1
        edge = lo
        for p in ('v1', 'v2', 'loose', 'auto'):
            for where in ('id', 'params', 'idobj'):
                for d in range(max(1, edge - 60), edge + 6, 1 if ctx['tier'] != 'quick' else (1 if where == 'id' else 3)):
                    deep = (b'[' * d + b']' * d) if where != 'idobj' else (b'{"a":' * d + b'1' + b'}' * d)
                    head = b'{"jsonrpc":"2.0",' if p != 'v1' else b'{'
                    msg = head + (b'"method":"ping","params":[],"id":' + deep if where != 'params' else b'"method":"ping","id":5,"params":' + deep) + b'}'
                    o = session_survives([msg], p)
                    ctx['extra_evals'] += 1
                    ctx['extra_nontrivial'] += 1
                    k = 'edge_' + ('answered' if o['answered'] else 'closed' if o['closed'] else 'WEDGED')
                    ctx['hist'][k] = ctx['hist'].get(k, 0) + 1
                    if not o['answered'] and not o['closed']:
                        out.append(Failure({'kind': 'nesting_edge', 'proto': p, 'where': where, 'depth': d, 'decoder_limit_here': edge}, o,
                                           f'after a request whose {where} is nested {d} deep the session neither answers a valid request nor has closed the connection'))
                        break
        ctx['notes'].append(f'nesting at the decoder\'s limit ({edge} here): every depth from {max(1, edge - 60)} to {edge + 5} as id / params, 4 protocol classes, through a serving session')
        # the same for byte STREAMS that are not cut at message boundaries: an over-long line arriving in pieces, then a
        # valid request arriving in pieces right behind it
        combos = [(j1, j2, cut, ch) for j1 in (201, 450, 1000) for j2 in (0, 150, 199) for cut in (0, 1, 30) for ch in (64, 199, 1000)]
        if ctx['tier'] == 'quick':
            combos = [c for i, c in enumerate(combos) if i % 4 == 0] + [(450, 150, 30, 64), (1000, 199, 1, 64), (201, 199, 30, 199)]
        for j1, j2, cut, ch in combos:
            for p in (['v2'] if ctx['tier'] == 'quick' else ['v2', 'loose', 'auto', 'v1']):
                o = session_survives_stream(j1, j2, cut, ch, p)
                ctx['extra_evals'] += 1
                ctx['extra_nontrivial'] += 1
                k = 'stream_' + ('answered' if o['answered'] else 'closed' if o['closed'] else 'SWALLOWED')
                ctx['hist'][k] = ctx['hist'].get(k, 0) + 1
                if not o['answered'] and not o['closed']:
                    out.append(Failure({'kind': 'stream', 'proto': p, 'over_long_line': j1, 'more_of_it': j2, 'request_bytes_with_the_newline': cut,
                                        'piece_size': ch, 'framer_limit': 200}, o,
                                       'a valid request arriving in pieces behind an over-long line was neither answered nor was the connection closed'))
                    break
            if len(out) >= 3:
                break
        return out


PROP = C05()
