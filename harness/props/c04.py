"""C04 - the JSON-RPC codec is loss-free and conforms to each version's wire format."""
import json
from harness.core import Prop, c_bytes, c_list
from harness import jsonvals as jv
from harness.props import codec_common as cc

PROTOS = ['v1', 'v2', 'loose', 'auto']


def gen_id(rng, pname):
    if pname == 'v1' and rng.random() < 0.3:
        return jv.gen_value(rng, 2)
    return rng.choice([0, 1, 7, -3, 2 ** 40, 'abc', '', jv.gen_str(rng), 1.5, None, True])


def gen_args(rng):
    r = rng.random()
    if r < 0.25:
        return []
    if r < 0.35:
        return {}
    if r < 0.7:
        return [jv.gen_value(rng, 2) for _ in range(rng.randrange(1, 4))]
    return {jv.gen_str(rng): jv.gen_value(rng, 2) for _ in range(rng.randrange(1, 3))}


class C04(Prop):
    id = 'C04'
    coq_header = cc.HEADER
    case_type = 'c04case'
    check_fn = 'c04_ok'
    sizes = {'quick': 3000, 'thorough': 60000}
    shard = 200
    rule = ('encode: requests / notifications / results / errors / batches with any-Unicode method names (controls, lone '
            'surrogates, astral), nested params, big ints, finite floats, [] vs {}, ids number/string/null (any JSON for 1.0) '
            'through the real *_message classmethods, byte-exact vs Json.print of the model payload; decode: bytes of payload '
            'dicts over {jsonrpc, method, params, id, result, error} x value kinds, batches, scalars and a malformed stream '
            'through message_to_item; detect_protocol; every encoded message is decoded back (round trip oracle); '
            'non-trivial = case with a nested value or a non-ASCII string; distinct = distinct case')
    assumptions = ('floats are opaque tokens (repr text); strings avoid a high surrogate directly followed by a low one (note N4)',)

    def corpus(self):
        return [{'kind': 'decode', 'proto': p, 'msg': list(m)} for p in PROTOS for m in cc.MALFORMED[:0]] + [
            {'kind': 'enc_req', 'proto': 'v2', 'method': 'm', 'args': jv.to_plain({}), 'id': 1},
            {'kind': 'enc_req', 'proto': 'v1', 'method': 'm', 'args': jv.to_plain({'a': 1}), 'id': 1},
            {'kind': 'enc_resp', 'proto': 'loose', 'resp': ['err', -5, 'msg\n"'], 'id': None}] + [
            # messages of one version that CARRY a message of another (a relay / gateway call): the nested version tag is data
            {'kind': 'enc_req', 'proto': pr, 'method': 'relay', 'args': jv.to_plain([nested]), 'id': i}
            for pr in ('v1', 'loose', 'v2') for i in (5, None)
            for nested in ({'jsonrpc': '2.0', 'method': 'ping'}, {'jsonrpc': '1.0', 'method': 'ping', 'params': [], 'id': 1},
                           [{'x': {'jsonrpc': '2.0'}}], {'result': 1, 'error': None, 'id': 2})] + [
            {'kind': 'enc_resp', 'proto': pr, 'resp': ['res', jv.to_plain(nested)], 'id': 3}
            for pr in ('v1', 'loose', 'v2')
            for nested in ({'jsonrpc': '2.0', 'result': 1, 'id': 1}, [{'jsonrpc': '2.0'}], {'jsonrpc': '1.0'}, {'result': 1, 'error': None})]

    def generate(self, rng, n, tier):
        for p in PROTOS:
            for m in cc.MALFORMED:
                yield {'kind': 'decode', 'proto': p, 'msg': list(m)}
                yield {'kind': 'detect', 'msg': list(m)}
        # responses whose error member is falsy but not null, in every structural variant
        for e in (0, 0.0, '', False, [], {}):
            for shape in ({'result': None, 'error': e, 'id': 1}, {'error': e, 'id': 1}, {'result': 7, 'error': e, 'id': 1},
                          {'jsonrpc': '2.0', 'error': e, 'id': 1}):
                for p in PROTOS:
                    yield {'kind': 'decode', 'proto': p, 'msg': list(json.dumps(shape).encode())}
        for i in range(n):
            p = rng.choice(PROTOS)
            r = rng.random()
            if r < 0.2:
                yield {'kind': 'enc_req', 'proto': p, 'method': jv.to_plain(jv.gen_str(rng)), 'args': jv.to_plain(gen_args(rng)),
                       'id': jv.to_plain(None if rng.random() < 0.3 else gen_id(rng, p))}
            elif r < 0.35:
                resp = ['res', jv.to_plain(jv.gen_value(rng, 2))] if rng.random() < 0.5 else \
                    ['err', rng.choice([0, -32601, 5, -100, 2 ** 33, True]), jv.to_plain(jv.gen_str(rng))]
                yield {'kind': 'enc_resp', 'proto': p, 'resp': resp, 'id': jv.to_plain(gen_id(rng, p))}
            elif r < 0.45:
                ms = [[jv.to_plain(jv.gen_str(rng)), jv.to_plain(gen_args(rng)),
                       jv.to_plain(None if rng.random() < 0.3 else rng.choice([1, 2, 'x', 5.5]))] for _ in range(rng.randrange(0, 4))]
                yield {'kind': 'enc_batch', 'proto': p, 'members': ms}
            else:
                style = rng.random()
                if style < 0.4:
                    v = cc.gen_valid_payload(rng)
                elif style < 0.55:
                    v = cc.gen_payload(rng)
                elif style < 0.75:
                    v = [cc.gen_valid_payload(rng) if rng.random() < 0.85 else jv.gen_scalar(rng) for _ in range(rng.randrange(0, 4))]
                elif style < 0.85:
                    v = jv.gen_value(rng, 3)
                else:
                    v = cc.gen_payload(rng)
                try:
                    msg = json.dumps(v, separators=rng.choice([(',', ':'), (', ', ': '), (' ,\n', ' :\t')])).encode()
                except ValueError:
                    msg = b'null'
                if style >= 0.85:      # corrupt valid text
                    b = bytearray(msg)
                    for _ in range(rng.randrange(1, 3)):
                        k = rng.randrange(len(b) + 1)
                        op = rng.random()
                        if op < 0.4 and b:
                            del b[min(k, len(b) - 1)]
                        elif op < 0.8:
                            b.insert(k, rng.choice(b'{}[],:"\\ 0-e.\x00\xff\x80nt'))
                        else:
                            b = b[:k]
                    msg = bytes(b)
                kind = 'detect' if rng.random() < 0.15 else 'decode'
                yield {'kind': kind, 'proto': p, 'msg': list(msg)}

    def run_impl(self, case):
        from aiorpcx import jsonrpc
        fp = jv.from_plain
        k = case['kind']
        if k == 'decode':
            return cc.observe_decode(case['proto'], bytes(case['msg']))
        if k == 'detect':
            try:
                c = jsonrpc.JSONRPCAutoDetect.detect_protocol(bytes(case['msg']))
                return {'proto': {jsonrpc.JSONRPCv1: 'V1', jsonrpc.JSONRPCv2: 'V2', jsonrpc.JSONRPCLoose: 'Loose'}[c]}
            except jsonrpc.ProtocolError:
                return {'proto': None}
            except BaseException as e:
                return {'proto': 'escape:' + type(e).__name__}
        P = cc.proto_class(case['proto'])
        try:
            if k == 'enc_req':
                m, a, i = fp(case['method']), fp(case['args']), fp(case['id'])
                if i is None:
                    b = P.notification_message(jsonrpc.Notification(m, a))
                else:
                    b = P.request_message(jsonrpc.Request(m, a), i)
            elif k == 'enc_resp':
                r = case['resp']
                val = fp(r[1]) if r[0] == 'res' else jsonrpc.RPCError(r[1], fp(r[2]))
                b = P.response_message(val, fp(case['id']))
            elif k == 'enc_batch':
                items, ids = [], []
                for m, a, i in case['members']:
                    if fp(i) is None:
                        items.append(jsonrpc.Notification(fp(m), fp(a)))
                    else:
                        items.append(jsonrpc.Request(fp(m), fp(a)))
                        ids.append(fp(i))
                b = P.batch_message(jsonrpc.Batch(items), ids)
            out = {'bytes': list(b)}
        except jsonrpc.ProtocolError:
            return {'bytes': None}
        # round trip: decode what was encoded, with the same class (and with Loose / auto-detection)
        out['back'] = cc.observe_decode(case['proto'], b)
        out['back_loose'] = cc.observe_decode('loose', b)
        try:
            det = jsonrpc.JSONRPCAutoDetect.detect_protocol(b)
            out['back_auto'] = cc.observe_decode({jsonrpc.JSONRPCv1: 'v1', jsonrpc.JSONRPCv2: 'v2', jsonrpc.JSONRPCLoose: 'loose'}[det], b)
        except Exception as e:
            out['back_auto'] = {'kind': 'escape', 'exc': type(e).__name__}
        return out

    def coq_case(self, case, obs):
        fp = jv.from_plain
        k = case['kind']
        if k in ('decode', 'detect') and cc.has_noncanonical_float(case['msg']):
            return None
        if k == 'decode':
            return f"CDecode {cc.PROTO_TERM[case['proto']]} {c_bytes(bytes(case['msg']))} {cc.dres_term(obs)}"
        if k == 'detect':
            if isinstance(obs['proto'], str) and obs['proto'].startswith('escape'):
                return None
            o = 'None' if obs['proto'] is None else f"(Some {obs['proto']})"
            return f"CDetect {c_bytes(bytes(case['msg']))} {o}"
        P = cc.PROTO_TERM[case['proto']]
        exp = obs['bytes']
        if k == 'enc_req':
            e = 'None' if exp is None else f'(Some {c_bytes(bytes(exp))})'
            return (f"CEncRequest {P} {jv.text_term(fp(case['method']))} {jv.json_term(fp(case['args']))} "
                    f"{jv.json_term(fp(case['id']))} {e}")
        if k == 'enc_resp':
            if exp is None:
                return None        # the encoder refused: the oracle decides
            r = case['resp']
            rv = f"(RResult {jv.json_term(fp(r[1]))})" if r[0] == 'res' else f"(RError {jv.json_term(r[1])} {jv.text_term(fp(r[2]))})"
            return f"CEncResponse {P} {rv} {jv.json_term(fp(case['id']))} {c_bytes(bytes(exp))}"
        if k == 'enc_batch':
            ms = c_list([f"({jv.text_term(fp(m))}, {jv.json_term(fp(a))}, {jv.json_term(fp(i))})" for m, a, i in case['members']],
                        'text * json * json')
            e = 'None' if exp is None else f'(Some {c_bytes(bytes(exp))})'
            return f"CEncBatch {P} {ms} {e}"

    def oracle(self, case, obs):
        fp = jv.from_plain
        k = case['kind']
        if k == 'decode':
            if obs['kind'] == 'errsend':
                if not obs['reply_ascii_line']:
                    return 'error reply is not one newline-free ASCII line'
            # the loose decoder gives a message the same meaning as the strict decoder that accepts it
            if case['proto'] == 'loose':
                for strict in ('v1', 'v2'):
                    so = cc.observe_decode(strict, bytes(case['msg']))
                    # (ids other than numbers, strings and null exist for the 1.0 class on its own: the loose protocol
                    # refuses them, as 2.0 does)
                    if strict == 'v1' and isinstance(so.get('id'), (list, dict)):
                        continue
                    if so['kind'] in ('resp', 'req', 'notif') and so != obs:
                        return (f'the loose decoder reads this message differently from the {strict} decoder that accepts it: '
                                f'{str(obs)[:120]} vs {str(so)[:120]}')
            # wire-format conformance of what the strict decoders ACCEPT as a response
            if obs['kind'] == 'resp' and case['proto'] in ('v1', 'v2'):
                try:
                    p = json.loads(bytes(case['msg']).decode('utf-8', 'surrogatepass'))
                except Exception:
                    p = None
                if isinstance(p, dict):
                    if case['proto'] == 'v1' and not ('result' in p and 'error' in p and (p['result'] is None or p['error'] is None)):
                        return 'the 1.0 decoder accepted a response that does not carry result and error with one of them null'
                    if case['proto'] == 'v2' and (not isinstance(p.get('jsonrpc'), str) or p.get('jsonrpc') != '2.0' or ('result' in p) == ('error' in p)):
                        return 'the 2.0 decoder accepted a response without "jsonrpc":"2.0" or without exactly one of result/error'
            # every structural variant of an incoming message is classified as its version demands (read off the wire formats)
            try:
                pj = json.loads(bytes(case['msg']).decode('utf-8', 'surrogatepass'))
            except Exception:
                pj = None
            if isinstance(pj, dict):
                if obs['kind'] == 'resp' and 'method' in pj:
                    return 'a message that has a "method" member (a request, however ill-formed) was read as a response'
                if obs['kind'] in ('req', 'notif') and case['proto'] == 'v1' and not isinstance(pj.get('params'), list):
                    return 'the 1.0 decoder accepted a request without a "params" array (1.0: positional params only, always present)'
                if obs['kind'] == 'resp' and 'res' in obs and 'result' not in pj:
                    return 'a message with no "result" member (and no error) was read as a successful response'
            if isinstance(pj, list) and obs['kind'] == 'batch' and case['proto'] == 'v1':
                return 'the 1.0 decoder accepted an array as a batch (1.0 has no batches)'
            if obs['kind'] in ('req', 'notif') and case['proto'] in ('v2', 'auto'):
                try:
                    p = json.loads(bytes(case['msg']).decode('utf-8', 'surrogatepass'))
                except Exception:
                    p = None
                if isinstance(p, dict) and not (isinstance(p.get('jsonrpc'), str) and p.get('jsonrpc') == '2.0'):
                    return 'the 2.0 decoder accepted a request / notification whose "jsonrpc" member is not the string "2.0"'
            return None
        if k == 'detect':
            if isinstance(obs['proto'], str) and obs['proto'].startswith('escape'):
                return None        # C05's concern
            # an explicit version member is obeyed: the message is then decoded exactly as its originating version would
            try:
                pj = json.loads(bytes(case['msg']).decode('utf-8', 'surrogatepass'))
            except Exception:
                pj = None
            if isinstance(pj, dict) and isinstance(pj.get('jsonrpc'), str):
                want = {'2.0': 'V2', '1.0': 'V1'}.get(pj['jsonrpc'])
                if want and obs['proto'] != want:
                    return f'a message that says "jsonrpc":"{pj["jsonrpc"]}" was detected as {obs["proto"]}'
            return None
        if obs['bytes'] is None:
            v1 = case['proto'] == 'v1'
            if k == 'enc_req' and v1 and isinstance(fp(case['args']), dict):
                return None
            if k == 'enc_batch' and (v1 or not case['members'] or
                                     (case['proto'] == 'v1')):
                return None
            return 'encoding a valid item raised ProtocolError'
        b = bytes(obs['bytes'])
        if any(not 32 <= x < 127 for x in b):
            return 'encoded message is not one newline-free line of ASCII JSON'
        try:
            payload = json.loads(b.decode())
        except ValueError:
            return 'encoded message is not valid JSON'
        pay = payload if isinstance(payload, list) else [payload]
        two = case['proto'] != 'v1'
        for p in pay:
            if two:
                if p.get('jsonrpc') != '2.0':
                    return '2.0 message without "jsonrpc":"2.0"'
                if k == 'enc_resp' and ('result' in p) == ('error' in p):
                    return '2.0 response without exactly one of result/error'
            else:
                if k == 'enc_resp' and not ('result' in p and 'error' in p and (p['result'] is None or p['error'] is None)):
                    return '1.0 response must carry result and error, one of them null'
                if k == 'enc_req' and not isinstance(p.get('params'), list):
                    return '1.0 request with non-positional params'
        # round trip (same class)
        want = None
        if k == 'enc_req':
            m, a, i = fp(case['method']), fp(case['args']), fp(case['id'])
            want = {'kind': 'notif', 'method': m, 'args': a} if i is None else {'kind': 'req', 'method': m, 'args': a, 'id': i}
        elif k == 'enc_resp':
            r = case['resp']
            i = fp(case['id'])
            want = {'kind': 'resp', 'res': fp(r[1]), 'id': i} if r[0] == 'res' else {'kind': 'resp', 'err': [r[1], fp(r[2])], 'id': i}
        if want is not None:
            for which in ('back', 'back_loose', 'back_auto'):
                got = {kk: fp(vv) for kk, vv in obs[which].items()}
                if which != 'back':
                    i = fp(case['id'])
                    if not (i is None or isinstance(i, (int, float, str))):
                        continue          # loose / auto-detection claim ids number, string, null only
                    if which == 'back_auto' and case['proto'] == 'v1' and k == 'enc_req' and False:
                        continue
                if not same(got, want):
                    return {'back': 'decoding an encoded item does not give an equal item',
                            'back_loose': 'the loose decoder gives a strict-encoder message a different meaning',
                            'back_auto': 'auto-detection settles on a protocol that decodes the message differently'}[which]
        return None

    def extra_checks(self, ctx):
        """auto-detection SETTLES: after its first message an auto-detecting connection is a connection of the detected
        protocol - later incoming messages are read, and outgoing messages written, exactly as a connection constructed
        with that protocol reads and writes them"""
        from aiorpcx import jsonrpc
        from harness.core import Failure
        firsts = [b'{"result":[1,"x"],"error":null,"id":0}', b'{"jsonrpc":"2.0","result":4,"id":0}', b'{"result":4,"id":0}',
                  b'{"jsonrpc":"2.0","method":"m","params":[1],"id":7}', b'{"method":"m","params":[1],"id":7}',
                  b'{"method":"m","params":[1],"id":null}', b'{"jsonrpc":"1.0","method":"m","params":[],"id":3}',
                  b'[{"jsonrpc":"2.0","method":"m","id":1},{"jsonrpc":"2.0","method":"n"}]', b'{"error":{"code":1,"message":"e"},"id":0}']
        later = [b'{"jsonrpc":"2.0","result":4,"id":1}', b'{"result":4,"error":null,"id":1}', b'{"result":4,"id":1}',
                 b'{"jsonrpc":"2.0","method":"q","params":{"a":1},"id":9}', b'{"method":"q","params":[2],"id":9}',
                 b'{"method":"q","id":9}', b'[{"jsonrpc":"2.0","method":"q","id":5}]', b'[{"method":"q","params":[],"id":5}]',
                 b'{"jsonrpc":"2.0","method":"q"}', b'{"method":"q","params":[],"id":null}', b'{"error":null,"result":null,"id":1}']

        def script(conn, first, follow):
            log = []

            def step(f):
                try:
                    log.append(f())
                except jsonrpc.ProtocolError as e:
                    log.append(['ProtocolError', e.code, None if e.error_message is None else bytes(e.error_message).decode()])
                except Exception as e:
                    log.append(['escaped', type(e).__name__])

            def rx(m):
                items = conn.receive_message(m)
                out = []
                for it in items:
                    if isinstance(it, jsonrpc.Request):
                        r = it.send_result('ok')
                        out.append(['request', it.method, repr(it.args), None if r is None else bytes(r).decode()])
                    elif isinstance(it, jsonrpc.Notification):
                        out.append(['notification', it.method, repr(it.args)])
                    else:
                        out.append(['other', type(it).__name__])
                return ['items', out]
            futs = []

            def tx_request():
                m, f = conn.send_request(jsonrpc.Request('p', [1]))
                futs.append(f)
                return ['sent', bytes(m).decode()]
            step(tx_request)
            step(tx_request)
            step(lambda: rx(first))
            for m in follow:
                step(lambda m=m: rx(m))
            step(tx_request)
            step(lambda: ['sent', bytes(conn.send_notification(jsonrpc.Notification('n', [1]))).decode()])
            step(lambda: ['sent', bytes(conn.send_notification(jsonrpc.Notification('n', {'a': 1}))).decode()])

            def tx_batch():
                m, f = conn.send_batch(jsonrpc.Batch([jsonrpc.Request('b', [1]), jsonrpc.Notification('c', [])]))
                return ['sent', bytes(m).decode()]
            step(tx_batch)
            log.append(['futures', [('pending' if not f.done() else 'cancelled' if f.cancelled() else repr(f.exception() or f.result())) for f in futs]])
            return log
        import asyncio
        out, n = [], 0
        names = {jsonrpc.JSONRPCv1: 'v1', jsonrpc.JSONRPCv2: 'v2', jsonrpc.JSONRPCLoose: 'loose'}
        loop = asyncio.new_event_loop()
        asyncio.set_event_loop(loop)
        try:
            for first in firsts:
                try:
                    det = jsonrpc.JSONRPCAutoDetect.detect_protocol(first)
                except Exception:
                    continue
                for k in range(len(later)):
                    follow = [later[k], later[(k + 3) % len(later)]]
                    a = script(jsonrpc.JSONRPCConnection(jsonrpc.JSONRPCAutoDetect), first, follow)
                    b = script(jsonrpc.JSONRPCConnection(det), first, follow)
                    n += 1
                    a, b = a[2:], b[2:]        # what is sent before anything was received is 2.0 by definition
                    if a != b:
                        i = next(i for i, (x, y) in enumerate(zip(a, b)) if x != y)
                        out.append(Failure({'kind': 'settle', 'first': first.decode(), 'then': [m.decode() for m in follow], 'detected': names.get(det, str(det))},
                                           {'auto_detecting_connection': a[i], 'connection_of_detected_protocol': b[i], 'step': i},
                                           'auto-detection does not settle: after its first message the connection does not read / write '
                                           'later messages as a connection of the detected protocol does'))
                        break
                if len(out) >= 2:
                    break
        finally:
            loop.close()
            asyncio.set_event_loop(None)
        ctx['extra_evals'] += n
        ctx['notes'].append(f'auto-detecting connection vs connection of the detected protocol over short scripts: {n}')
        # members of an array are handed to _process_request / _process_response one by one, whatever JSON value they are:
        # a member that is not an object is refused with -32600 (and, on the request path, an error reply under id null)
        nm = 0
        for pname in PROTOS:
            P = cc.proto_class(pname)
            if not P.allow_batches:
                continue            # (1.0 has no batches: no member ever reaches these functions on their own)
            for member in (1, 0, -3, 1.5, 'x', '', None, True, False, [], [1, 2], [{'jsonrpc': '2.0', 'method': 'm'}]):
                for path in ('_process_request', '_process_response'):
                    nm += 1
                    obs = None
                    try:
                        getattr(P, path)(member)
                        obs = 'accepted'
                    except jsonrpc.ProtocolError as e:
                        reply = None
                        if e.error_message is not None:
                            try:
                                reply = json.loads(e.error_message.decode())
                            except Exception:
                                reply = 'not JSON'
                        ok = e.code == -32600 and (path == '_process_response' or (
                            isinstance(reply, dict) and reply.get('id', 0) is None and isinstance(reply.get('error'), dict)
                            and reply['error'].get('code') == -32600))
                        obs = None if ok else f'ProtocolError {e.code} with reply {reply!r}'
                    except Exception as e:
                        obs = 'escaped: ' + type(e).__name__
                    if obs and len([f for f in out if f.case.get('kind') == 'member']) < 2:
                        out.append(Failure({'kind': 'member', 'proto': pname, 'member': jv.to_plain(member), 'path': path}, {'outcome': obs},
                                           'a batch member that is not an object was not refused with -32600 (invalid request, reply under id null)'))
        ctx['extra_evals'] += nm
        ctx['notes'].append(f'non-object batch members through _process_request / _process_response: {nm}')
        return out

    def nontrivial(self, case, obs):
        s = json.dumps(case)
        return '__str__' in s or '[[' in s or '__dict__' in s or case['kind'] == 'decode'

    def histogram(self, case, obs):
        h = ['kind=' + case['kind'], 'proto=' + case.get('proto', '-')]
        if case['kind'] == 'decode':
            h.append('dec_' + obs['kind'] + ('_%s' % obs.get('code') if 'code' in obs else ''))
        return h


def same(a, b):
    """equality of canonical items: tuples = lists, floats by repr, bool vs int distinguished"""
    return norm(a) == norm(b)


def norm(v):
    if isinstance(v, dict):
        return ('d', tuple((k, norm(x)) for k, x in v.items()))
    if isinstance(v, (list, tuple)):
        return ('l', tuple(norm(x) for x in v))
    if isinstance(v, float):
        return ('f', jv.float_tok(v))
    if isinstance(v, bool):
        return ('b', v)
    return v


PROP = C04()
