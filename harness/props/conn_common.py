"""Drives the real JSONRPCConnection through operation sequences (C01, C02, C05)."""
import asyncio, json
from harness import jsonvals as jv
from harness.core import c_Z, c_N, c_nat, c_bytes, c_list, c_bool
from harness.props import codec_common as cc

HEADER = 'From AV Require Import Base Utf8 Json Codec Conn.'
CASE_TYPE = 'option proto * list cop'


def run_ops(pname, ops):
    from aiorpcx import jsonrpc
    loop = asyncio.new_event_loop()
    asyncio.set_event_loop(loop)
    try:
        conn = jsonrpc.JSONRPCConnection(cc.proto_class(pname))
        futures = {}          # key tuple -> future
        received = []
        out = []
        fp = jv.from_plain

        def keys():
            return [k if isinstance(k, tuple) else (k,) for k in conn._requests]
        for op in ops:
            kind = op[0]
            o = {}
            try:
                if kind == 'send_request':
                    before = set(conn._requests)
                    msg, fut = conn.send_request(jsonrpc.Request(fp(op[1]), fp(op[2])))
                    new = [k for k in conn._requests if k not in before]
                    futures[('one', new[0])] = fut
                    o = {'msg': list(msg)}
                elif kind == 'send_notification':
                    o = {'msg': list(conn.send_notification(jsonrpc.Notification(fp(op[1]), fp(op[2]))))}
                elif kind == 'send_batch':
                    items = [jsonrpc.Request(fp(m), fp(a)) if isreq else jsonrpc.Notification(fp(m), fp(a)) for m, a, isreq in op[1]]
                    before = set(conn._requests)
                    msg, fut = conn.send_batch(jsonrpc.Batch(items))
                    new = [k for k in conn._requests if k not in before]
                    if fut is not None:
                        futures[('many', new[0])] = fut
                    o = {'msg': list(msg)}
                elif kind == 'receive':
                    done_before = {k for k, f in futures.items() if f.done()}
                    items = conn.receive_message(bytes(op[1]))
                    newly = [k for k, f in futures.items() if f.done() and k not in done_before]
                    if items:
                        o = {'items': [[isinstance(it, jsonrpc.Request), jv.to_plain(it.method), jv.to_plain(it.args),
                                        jv.to_plain(it.send_result.args[0]) if isinstance(it, jsonrpc.Request) else None]
                                       for it in items]}
                        for it in items:
                            if isinstance(it, jsonrpc.Request):
                                received.append(it)
                    elif newly:
                        k = newly[0]
                        f = futures[k]
                        vals = []
                        if f.exception() is not None:
                            vals = [describe(f.exception())]
                        elif k[0] == 'many':
                            vals = [describe(v) for v in f.result()]
                        elif isinstance(f.result(), BaseException) and not isinstance(f.result(), jsonrpc.RPCError):
                            # an exception object handed over as if it were the peer's result
                            vals = [['returned-exception', type(f.result()).__name__]]
                        else:
                            vals = [describe(f.result())]
                        o = {'completed': [k[0], list(k[1]) if k[0] == 'many' else k[1]], 'vals': vals, 'n_newly': len(newly)}
                    else:
                        o = {'items': []}
                elif kind == 'send_result':
                    if op[1] >= len(received):
                        o = {'skip': True}
                    else:
                        r = op[2]
                        if r[0] == 'bad':
                            # a result JSON cannot encode: send_result refuses it, and the caller (the session) supplies
                            # an internal error in its place - exactly what RPCSession._throttled_request does
                            kind_bad = r[1] if len(r) > 1 else 'set'
                            if kind_bad == 'hugeint':
                                badval = {'n': [1, 10 ** 4400]}        # json refuses integers of more than 4300 digits
                            elif kind_bad == 'circular':
                                badval = []
                                badval.append(badval)
                            elif kind_bad == 'deep':
                                badval = cur = []
                                for _ in range(100000):
                                    cur.append([])
                                    cur = cur[0]
                            elif kind_bad == 'excobj':
                                badval = KeyError('job 7 failed')       # the handler RETURNS an exception object as its value
                            elif kind_bad == 'excobj2':
                                badval = asyncio.TimeoutError()
                            else:
                                badval = {1, 2}
                            try:
                                m = received[op[1]].send_result(badval)
                                o = {'msg': None if m is None else list(m), 'unencodable_accepted': True}
                            except jsonrpc.ProtocolError:
                                m = received[op[1]].send_result(jsonrpc.RPCError(jsonrpc.JSONRPC.INTERNAL_ERROR, 'internal server error'))
                                o = {'msg': None if m is None else list(m)}
                        else:
                            val = fp(r[1]) if r[0] == 'res' else jsonrpc.RPCError(r[1], fp(r[2]))
                            m = received[op[1]].send_result(val)
                            o = {'msg': None if m is None else list(m)}
                elif kind == 'abandon':
                    # the caller stops waiting (e.g. its sent_request_timeout expired): the future is cancelled,
                    # the entry stays in the table until a response arrives
                    ks = [k for k in futures if k[0] == ('many' if len(op) > 2 and op[2] else 'one')]
                    if op[1] < len(ks):
                        futures[ks[op[1]]].cancel()
                    o = {}
                elif kind == 'cancel_all':
                    n = len(conn._requests)
                    conn.cancel_pending_requests()
                    o = {'n': n}
                elif kind == 'set_max':
                    conn.max_response_size = op[1]
                    o = {}
            except jsonrpc.ProtocolError as e:
                o = {'protoerr': e.code, 'reply': None if e.error_message is None else list(e.error_message)}
            except BaseException as e:
                o = {'escape': type(e).__name__}
            o['pending'] = len(conn._requests)
            out.append(o)
        # ids of received requests, for the Coq side
        return {'obs': out, 'req_ids': [None] * len(received)}
    finally:
        loop.close()
        asyncio.set_event_loop(None)


def describe(v):
    from aiorpcx import jsonrpc
    if isinstance(v, jsonrpc.RPCError):
        return ['err', jv.to_plain(v.code), jv.to_plain(v.message)]
    if isinstance(v, jsonrpc.ProtocolError):
        return ['protoerr', v.code]
    if isinstance(v, BaseException):
        return ['exc', type(v).__name__]
    return ['res', jv.to_plain(v)]


def val_term(d):
    fp = jv.from_plain
    if d[0] == 'res':
        return f"(inl (RResult {jv.json_term(fp(d[1]))}))"
    if d[0] == 'err':
        return f"(inl (RError {jv.json_term(fp(d[1]))} {jv.text_term(fp(d[2]))}))"
    if d[0] == 'protoerr':
        return f"(inr {c_Z(d[1])})"
    return None


def opt_bytes(b):
    return '(@None bytes)' if b is None else f'(Some {c_bytes(bytes(b))})'


def respval_term(r):
    fp = jv.from_plain
    if r[0] == 'bad':      # refused, then answered with the internal error
        r = ['err', -32603, 'internal server error']
    return f"(RResult {jv.json_term(fp(r[1]))})" if r[0] == 'res' else f"(RError {jv.json_term(r[1])} {jv.text_term(fp(r[2]))})"


def coq_case(pname, ops, result):
    fp = jv.from_plain
    terms = []
    if any(op[0] == 'abandon' for op in ops):
        return None       # a caller that gave up is outside the connection model: oracle only
    if any(op[0] == 'receive' and cc.has_noncanonical_float(op[1]) for op in ops):
        return None       # float tokens other than repr(x) are outside the model's float oracle: oracle only
    for op, o in zip(ops, result['obs']):
        kind = op[0]
        if 'escape' in o and kind != 'receive':
            return None
        if kind in ('send_request', 'send_notification'):
            c = 'OSendRequest' if kind == 'send_request' else 'OSendNotification'
            obs = opt_bytes(o.get('msg')) if 'protoerr' not in o else '(@None bytes)'
            terms.append(f"({c} {jv.text_term(fp(op[1]))} {jv.json_term(fp(op[2]))} {obs})")
        elif kind == 'send_batch':
            ms = c_list([f"({jv.text_term(fp(m))}, {jv.json_term(fp(a))}, {c_bool(r)})" for m, a, r in op[1]], 'text * json * bool')
            obs = opt_bytes(o.get('msg')) if 'protoerr' not in o else '(@None bytes)'
            terms.append(f"(OSendBatch {ms} {obs})")
        elif kind == 'receive':
            if 'escape' in o:
                ob = 'BEscape'
            elif 'protoerr' in o:
                ob = f"(BProtoErr {c_Z(o['protoerr'])} {opt_bytes(o['reply'])})"
            elif 'completed' in o:
                k = o['completed']
                key = f"(KOne {c_N(k[1])})" if k[0] == 'one' else f"(KMany {c_list([c_N(x) for x in k[1]], 'N')})"
                vals = [val_term(v) for v in o['vals']]
                if any(v is None for v in vals):
                    return None
                ob = f"(BCompleted {key} {c_list(vals, 'respval + Z')})"
            else:
                its = c_list([f"({c_bool(r)}, {jv.text_term(fp(m))}, {jv.json_term(fp(a))}, {jv.json_term(fp(i))})" for r, m, a, i in o['items']],
                             'bool * text * json * json')
                ob = f"(BItems {its})"
            terms.append(f"(OReceive {c_bytes(bytes(op[1]))} {ob} {c_nat(o['pending'])})")
        elif kind == 'send_result':
            if o.get('skip'):
                continue
            if 'protoerr' in o:
                return None
            terms.append(f"(OSendResult {c_nat(op[1])} {respval_term(op[2])} {opt_bytes(o['msg'])})")
        elif kind == 'cancel_all':
            terms.append(f"(OCancelAll {c_nat(o['n'])})")
        elif kind == 'set_max':
            terms.append(f"(OSetMax {c_N(op[1])})")
    p = {'v1': '(Some V1)', 'v2': '(Some V2)', 'loose': '(Some Loose)', 'auto': '(@None proto)'}[pname]
    return f"({p}, {c_list(terms, 'cop')})"


def show_term(pname, ops, result):
    t = coq_case(pname, ops, result)
    if t is None:
        return None
    return f"let x := {t} in trace_firstbad {{| t_conn := new_conn (fst x); t_reqs := []; t_ctxs := [] |}} (snd x) 0"
