"""C06 - NewlineFramer: chunking independence, resynchronisation (model/Newline.v)."""
import asyncio, itertools
from harness.core import Prop, c_nat, c_bytes, c_list

ALPHA = [b'a', b'b', b'\n', b'\x00']


def expand(chunks):
    """a chunk is a list of byte values, or ['rep', byte, count] for a long run"""
    return [bytes([c[1]]) * c[2] if c and c[0] == 'rep' else bytes(c) for c in chunks]


def chunkings(stream, allow_empty_at=()):
    n = len(stream)
    for cuts in range(1 << max(n - 1, 0)):
        chunks, cur = [], b''
        for i in range(n):
            cur += stream[i:i + 1]
            if i == n - 1 or (cuts >> i) & 1:
                chunks.append(cur)
                cur = b''
        yield chunks


async def _drive(max_size, chunks, plan):
    """plan[i] = number of reader attempts made before chunk i is fed (interleaving)"""
    from aiorpcx.framing import NewlineFramer
    f = NewlineFramer(max_size)
    out = []
    reader = None

    async def pump():
        # let a perpetual reader run until it blocks
        nonlocal reader
        while True:
            if reader is None:
                reader = asyncio.ensure_future(f.receive_message())
            for _ in range(3):
                await asyncio.sleep(0)
            if not reader.done():
                return
            try:
                out.append(['msg', list(reader.result())])
            except MemoryError:
                out.append(['mem'])
            reader = None

    for i, c in enumerate(chunks):
        if plan and plan[i % len(plan)]:
            await pump()
        f.received_bytes(bytes(c))
    await pump()
    if reader is not None:
        reader.cancel()
        try:
            await reader
        except BaseException:
            pass
    return out


class C06(Prop):
    id = 'C06'
    title = 'Newline framing is independent of chunking and resynchronises after oversize'
    coq_header = 'From AV Require Import Base Newline.'
    case_type = 'nat * list bytes * list result'
    check_fn = 'case_ok'
    sizes = {'quick': 3000, 'thorough': 60000}
    rule = ('streams over {a,b,\\n,NUL} cut into chunks (incl. empty and single-byte chunks), limits 0..6 and '
            'default; reader attempts interleaved with arrivals by a random plan; a case is non-trivial when '
            'the stream holds a newline and more than one chunk; distinct = distinct (limit, chunks, plan)')
    trusted = ('asyncio.Queue is FIFO (interleaving independence rests on it; exercised by the plan)',)
    assumptions = ('the reader is the only consumer of the framer',)

    def corpus(self):
        return [
            {'max': 2, 'chunks': [[97, 97, 97], [97, 10, 98, 10]], 'plan': [0]},
            {'max': 2, 'chunks': [[97, 97, 97], [97, 97, 97], [97, 10], [98, 10]], 'plan': [1]},
            {'max': 1, 'chunks': [[97, 97, 10, 98, 98, 10, 99, 10]], 'plan': [0]},
            {'max': 0, 'chunks': [[97] * 50, [10]], 'plan': [1, 0]},
            {'max': 3, 'chunks': [[], [10], [], [10, 10]], 'plan': [1]},
            # 0 = unlimited: a segment longer than the default limit of 1,000,000 bytes, arriving in pieces
            {'max': 0, 'chunks': [['rep', 97, 65536]] * 19 + [[98, 10, 111, 107, 10]], 'plan': [0]},
            {'max': 0, 'chunks': [['rep', 97, 65536]] * 19 + [[98, 10, 111, 107, 10]], 'plan': [1]},
        ]

    def generate(self, rng, n, tier):
        # exhaustive part: all chunkings of all streams up to L bytes (quick: 6, thorough: 9)
        L = 5 if tier == 'quick' else 8
        budget = n // 2
        ex = []
        for l in range(0, L + 1):
            for s in itertools.product([97, 98, 10], repeat=l):
                for ch in chunkings(bytes(s)):
                    ex.append([list(c) for c in ch])
        rng.shuffle(ex)
        for ch in ex[:budget]:
            yield {'max': rng.choice([0, 1, 2, 3, 4]), 'chunks': ch, 'plan': [rng.randrange(2) for _ in range(3)]}
        for _ in range(n - min(budget, len(ex))):
            l = rng.choice([0, 1, 3, 8, 20, 40, 80])
            nlp = rng.choice([0.05, 0.15, 0.4])
            stream = bytes(10 if rng.random() < nlp else rng.choice([97, 98, 0, 255, 13]) for _ in range(l))
            chunks, i = [], 0
            while i < l:
                k = rng.choice([0, 1, 1, 2, 3, 5, 9, 30])
                chunks.append(list(stream[i:i + k]))
                i += k
            if rng.random() < 0.2:
                chunks.insert(rng.randrange(len(chunks) + 1), [])
            yield {'max': rng.choice([0, 1, 2, 3, 5, 6, 10, 1000000]), 'chunks': chunks,
                   'plan': [rng.randrange(2) for _ in range(rng.randrange(1, 4))]}

    def run_impl(self, case):
        return asyncio.run(_drive(case['max'], expand(case['chunks']), case['plan']))

    def coq_case(self, case, obs):
        if sum(len(c) for c in expand(case['chunks'])) > 20000:
            return None            # too long a literal for the model evaluation: oracle only
        res = c_list(['(Msg %s)' % c_bytes(bytes(r[1])) if r[0] == 'msg' else 'MemErr' for r in obs], 'result')
        chunks = c_list([c_bytes(bytes(c)) for c in case['chunks']], 'bytes')
        mx = case['max']
        mxs = c_nat(mx) if mx < 5000 else '(Z.to_nat %d%%Z)' % mx
        return f'({mxs}, {chunks}, {res})'

    def coq_show(self, case, obs):
        chunks = c_list([c_bytes(bytes(c)) for c in case['chunks']], 'bytes')
        return f'outs (run (Z.to_nat {case["max"]}%Z) {chunks})'

    def oracle(self, case, obs):
        mx = case['max']
        stream = b''.join(expand(case['chunks']))
        segs = stream.split(b'\n')
        tail = segs.pop()
        msgs = [bytes(r[1]) for r in obs if r[0] == 'msg']
        fit = lambda s: mx == 0 or len(s) <= mx
        # delivered messages = a subsequence of the segments (whole, in order, once)
        it = iter(segs)
        if not all(any(m == s for s in it) for m in msgs):
            return 'delivered messages are not a subsequence of the stream segments'
        # every fitting segment delivered: greedy positional alignment
        j = 0
        for s in segs:
            if j < len(msgs) and msgs[j] == s:
                j += 1
            elif fit(s):
                return 'a segment within the limit was not delivered'
        if j != len(msgs):
            return 'a message was delivered that is not a segment at its position'
        nmem = sum(1 for r in obs if r[0] == 'mem')
        dropped = len(segs) - len(msgs)
        if dropped > nmem:
            return 'a segment was dropped without MemoryError'
        if nmem and all(fit(s) for s in segs) and fit(tail):
            return 'MemoryError although no segment exceeds the limit'
        if mx:
            longest = max((len(c) for c in expand(case['chunks'])), default=0)
            for m in msgs:
                if len(m) >= mx + max(longest, 1):
                    return 'delivered message exceeds the limit by more than a chunk'
        return None

    def extra_checks(self, ctx):
        """framing a message (any bytes without a newline) and feeding the framed bytes back - whole, byte by byte, two
        messages back to back - returns the message: the frame is the message followed by one newline, nothing else"""
        from harness.core import Failure
        from aiorpcx.framing import NewlineFramer
        rng = ctx['rng']
        out, n = [], 0
        msgs = [b'', b'a', b'{"id": 1}', b'{"id": 1} ', b'abc\t', b'data\r', b' ', b'\t\r \x0b\x0c', b' x ', b'\x00', b'\xff\xfe', b'x' * 300 + b'  ']
        msgs += [bytes(rng.choice([32, 9, 13, 11, 12, 97, 0, 255, 123]) for _ in range(rng.randrange(0, 12))) for _ in range(40)]
        for m in msgs:
            f = NewlineFramer()
            framed = f.frame(m)
            n += 1
            cl = None
            if bytes(framed) != m + b'\n':
                cl = 'the framed bytes are not the message followed by one newline'
            else:
                for chunks in ([framed], [bytes([b]) for b in framed], [framed + f.frame(b'second')]):
                    res = asyncio.run(_drive(0, chunks, [0]))
                    want = [['msg', list(m)]] + ([['msg', list(b'second')]] if len(chunks) == 1 and chunks[0] != framed else [])
                    if res != want:
                        cl = 'framing a message and feeding the bytes back does not return the message'
                        break
            if cl:
                out.append(Failure({'kind': 'frame_roundtrip', 'message': list(m)}, {'framed': list(framed)}, cl))
                if len(out) >= 2:
                    break
        ctx['extra_evals'] += n
        ctx['notes'].append(f'frame round trips (messages ending in whitespace, empty, binary): {n}')
        return out

    def nontrivial(self, case, obs):
        return len(case['chunks']) > 1 and any(10 in c for c in case['chunks'])

    def histogram(self, case, obs):
        h = ['limit=%s' % ('0' if case['max'] == 0 else 'small' if case['max'] < 10 else 'big'),
             'chunks=%s' % min(len(case['chunks']), 10)]
        if any(r[0] == 'mem' for r in obs):
            h.append('has_memerr')
        if any(len(c) == 0 for c in case['chunks']):
            h.append('has_empty_chunk')
        return h


PROP = C06()
