"""C01 - a response completes exactly the request that caused it (model/Conn.v)."""
import json
from harness.core import Prop
from harness import jsonvals as jv
from harness.props import conn_common as cm


def enc_id(rng, i):
    """the id as the peer may write it: Python identifies 1 == 1.0 == True"""
    r = rng.random()
    if r < 0.7:
        return i
    if r < 0.85:
        return float(i)
    if i in (0, 1) and r < 0.95:
        return bool(i)
    return i


BARE = [False]      # the peer omits the "jsonrpc" member (what JSONRPCLoose accepts and auto-detection settles on Loose for)


def response_payload(rng, pname, rid, outcome):
    d = _response_payload(rng, pname, rid, outcome)
    if BARE[0]:
        d.pop('jsonrpc', None)
    return d


def _response_payload(rng, pname, rid, outcome):
    two = pname != 'v1'
    d = {'jsonrpc': '2.0'} if two else {}
    d['id'] = rid
    kind = outcome[0]
    if kind == 'res':
        d['result'] = outcome[1]
        if not two:
            d['error'] = None
    elif kind == 'err':
        d['error'] = {'code': outcome[1], 'message': outcome[2]}
        if not two:
            d['result'] = None
    elif kind == 'errval':
        # loose protocol: any non-null error member is the error, however it looks (0, "", {}, false, a bare code or text)
        d['error'] = outcome[1]
        if outcome[2] == 'with_null_result':
            d['result'] = None
    else:   # malformed response whose id is recoverable
        variant = outcome[1] if len(outcome) > 1 else 0
        if pname == 'v2' and variant == 1:      # well-formed but for the missing version member
            d.pop('jsonrpc')
            d['result'] = 5
        elif pname == 'v2' and variant == 2:    # wrong version
            d['jsonrpc'] = '1.0'
            d['result'] = 5
        elif two:
            d['result'] = 1
            d['error'] = {'code': 1, 'message': 'x'}
        else:
            d['result'] = 1
            d['error'] = 2
    return d


class C01(Prop):
    id = 'C01'
    coq_header = cm.HEADER
    case_type = cm.CASE_TYPE
    check_fn = 'conn_ok'
    sizes = {'quick': 500, 'thorough': 8000}
    shard = 40
    rule = ('histories of <= 60 operations on the real JSONRPCConnection for v1 / v2 / Loose / AutoDetect: up to 12 outstanding '
            'single requests and 4 batches (<= 8 members, mixed with notifications); the response stream is built by an '
            'independent encoder: results, error objects, malformed responses with a recoverable id, ids written as int / '
            'float / bool, permuted batch members, duplicates (replays), unknown ids, incomplete and over-complete batches; '
            'after every operation the outcome class, the completed future with its values and len(pending) are compared '
            'with the model; non-trivial = history with >= 3 outstanding keys at some point and a batch; distinct = distinct history')

    def corpus(self):
        return []

    def generate(self, rng, n, tier):
        for _ in range(n):
            pname = rng.choice(['v1', 'v2', 'v2', 'loose', 'auto'])
            ops, expects = [], []
            counter = 0
            BARE[0] = pname in ('loose', 'auto') and rng.random() < 0.4
            conn_kind = pname
            if BARE[0] and pname == 'auto':
                # the peer's first message has no "jsonrpc" member: the connection settles on the Loose dialect
                ops += [['send_request', 'm0', jv.to_plain([])], ['receive', list(json.dumps({'id': 0, 'result': 5}).encode())]]
                expects += [None, ['complete', [0], [['res', 5]]]]
                counter = 1
                pname = 'loose'
            outstanding = {}        # key tuple -> ('one'|'many')
            done = []               # keys already answered (for replays)
            refused = []            # ids consumed by sends the protocol refused (never sent, so never outstanding)
            first_rx = conn_kind == pname
            for _ in range(rng.randrange(4, 60)):
                r = rng.random()
                if r < 0.3 and len(outstanding) < 14:
                    args = rng.choice([[], [1, 'a'], {'k': 1}])
                    ops.append(['send_request', 'm%d' % counter, jv.to_plain(args)])
                    expects.append(None)
                    if not (pname == 'v1' and isinstance(args, dict)):
                        outstanding[(counter,)] = 'one'
                    else:
                        refused.append(counter)
                    counter += 1
                elif r < 0.36:
                    ops.append(['send_notification', 'n', jv.to_plain([1])])
                    expects.append(None)
                elif r < 0.46 and len(outstanding) < 14:
                    ms = [['b', jv.to_plain([j]), rng.random() < 0.75] for j in range(rng.randrange(1, 8))]
                    ops.append(['send_batch', ms])
                    expects.append(None)
                    nreq = sum(1 for m in ms if m[2])
                    ids = tuple(range(counter, counter + nreq))
                    if pname != 'v1':
                        if ids:
                            outstanding[ids] = 'many'
                    else:
                        refused.extend(ids)
                    counter += nreq      # ids are consumed even when the protocol refuses batches
                elif outstanding or done:
                    # the peer answers something
                    style = rng.random()
                    if pname == 'auto' and first_rx:
                        style = 0.0       # let detection settle on a well-formed message
                    if style < 0.62 and outstanding:
                        key = rng.choice(list(outstanding))
                        if outstanding[key] == 'one' and pname != 'v1' and rng.random() < 0.08:
                            # a single request answered by a one-element batch: not a response to anything sent
                            payload = response_payload(rng, pname, enc_id(rng, key[0]), ['res', 5])
                            ops.append(['receive', list(json.dumps([payload]).encode())])
                            expects.append(['reject'])
                        elif outstanding[key] == 'many' and len(key) == 1 and rng.random() < 0.3:
                            # a batch of one request answered by an un-batched response object
                            payload = response_payload(rng, pname, enc_id(rng, key[0]), ['res', 5])
                            ops.append(['receive', list(json.dumps(payload).encode())])
                            expects.append(['reject'])
                        elif outstanding[key] == 'one' and pname != 'v1' and rng.random() < 0.1:
                            # an array that answers no batch we sent, holding an ill-formed member under the id of a single
                            # request: rejected as a whole, the single request is not disturbed
                            bad = response_payload(rng, pname, enc_id(rng, key[0]), ['res', 1])
                            bad['error'] = {'code': 1, 'message': 'x'}
                            other = response_payload(rng, pname, 9999, ['res', 0])
                            arr = [bad, other] if rng.random() < 0.5 else [other, bad]
                            ops.append(['receive', list(json.dumps(arr).encode())])
                            expects.append(['reject'])
                        elif outstanding[key] == 'one':
                            outcome = rng.choice([['res', rng.choice([None, 5, 'ok', [1]])], ['err', 7, 'bad'], ['malformed', rng.randrange(3)]])
                            if pname == 'loose' and rng.random() < 0.3:
                                outcome = ['errval', rng.choice([0, '', {}, False, [], 0.0, 7, 'boom', {'code': 3}]),
                                           rng.choice(['with_null_result', 'alone'])]
                            payload = response_payload(rng, pname, enc_id(rng, key[0]), outcome)
                            ops.append(['receive', list(json.dumps(payload).encode())])
                            expects.append(['complete', list(key), [outcome]])
                            del outstanding[key]
                            done.append((key, payload))
                        else:
                            outs = [rng.choice([['res', i * 10], ['err', i, 'e%d' % i]]) for i in key]
                            members = [response_payload(rng, pname, enc_id(rng, i), o) for i, o in zip(key, outs)]
                            variant = rng.random()
                            order = list(range(len(members)))
                            rng.shuffle(order)
                            send = [members[j] for j in order]
                            if variant < 0.12:
                                # exactly the batch's ids, but one member is ill-formed: rejected, the batch stays outstanding
                                # (the peer's later well-formed answer still completes it)
                                bad = dict(send[0])
                                bad['result'], bad['error'] = 1, {'code': 1, 'message': 'x'}
                                ops.append(['receive', list(json.dumps([bad] + send[1:]).encode())])
                                expects.append(['reject'])
                            elif variant < 0.7:
                                ops.append(['receive', list(json.dumps(send).encode())])
                                expects.append(['complete', list(key), outs])
                                del outstanding[key]
                                done.append((key, send))
                            elif variant < 0.78:
                                # ids that cannot be ordered among themselves (null - what 2.0 prescribes when the peer could not
                                # determine a member's id -, a string): such an array answers no batch we sent
                                odd = dict(send[-1])
                                odd['id'] = rng.choice([None, 'a', str(odd.get('id'))])
                                arr = send[:-1] + [odd] if len(send) > 1 else [odd, response_payload(rng, pname, 9999, ['res', 0])]
                                rng.shuffle(arr)
                                ops.append(['receive', list(json.dumps(arr).encode())])
                                expects.append(['reject'])
                            elif variant < 0.85 and len(send) > 1:
                                ops.append(['receive', list(json.dumps(send[:-1]).encode())])
                                expects.append(['reject'])
                            else:
                                extra = response_payload(rng, pname, 9999, ['res', 0])
                                ops.append(['receive', list(json.dumps(send + [extra]).encode())])
                                expects.append(['reject'])
                    elif style < 0.8 and done:
                        key, payload = rng.choice(done)      # replay of an answered id
                        ops.append(['receive', list(json.dumps(payload).encode())])
                        expects.append(['reject'])
                    else:
                        rid = rng.choice([9999, -1, '0', '1', None, 1.5, 2 ** 70, [1], {'a': 1}, [], [[2]]])
                        if refused and rng.random() < 0.5:
                            # the id of a request the protocol refused to encode: it was never sent
                            rid = rng.choice(refused)
                        payload = response_payload(rng, pname, rid, rng.choice([['res', 1], ['res', 1], ['malformed', rng.randrange(3)]]))
                        ops.append(['receive', list(json.dumps(payload).encode())])
                        expects.append(['reject'])
                    first_rx = False
                elif rng.random() < 0.1:
                    ops.append(['cancel_all'])
                    expects.append(None)
                    outstanding.clear()
            BARE[0] = False
            yield {'proto': conn_kind, 'ops': ops, 'expects': expects}

    def run_impl(self, case):
        return cm.run_ops(case['proto'], case['ops'])

    def coq_case(self, case, obs):
        return cm.coq_case(case['proto'], case['ops'], obs)

    def coq_show(self, case, obs):
        return cm.show_term(case['proto'], case['ops'], obs)

    def oracle(self, case, obs):
        pend = 0
        seen_keys = set()
        for op, ex, o in zip(case['ops'], case['expects'], obs['obs']):
            if 'escape' in o:
                return 'an exception other than ProtocolError escaped: ' + o['escape']
            if ex is None:
                pend = o['pending']
                continue
            if ex[0] == 'complete':
                if 'completed' not in o:
                    return 'a response under an outstanding id did not complete its request'
                k = o['completed'][1]
                k = k if isinstance(k, list) else [k]
                if k != ex[1]:
                    return 'a response completed a different request'
                if tuple(k) in seen_keys:
                    return 'a request was completed twice'
                seen_keys.add(tuple(k))
                if o.get('n_newly') != 1:
                    return 'one response completed several awaitables'
                want = [['protoerr', -32600] if x[0] == 'malformed' else x for x in ex[2]]
                got = [v[:1] + [jv.from_plain(z) for z in v[1:]] for v in o['vals']]
                if len(want) == 1 and want[0][0] == 'errval':
                    # the peer sent an error: the awaitable must not complete with a result (the exact code and
                    # message of the best-effort reading are compared with the model)
                    if got[0][0] != 'err':
                        return 'the peer answered with an error member, the awaitable did not complete with an error'
                elif got != want:
                    return 'the awaitable did not complete with the outcome sent under its id (batch: in member order)'
                if o['pending'] != pend - 1:
                    return 'completing one request disturbed the table of outstanding requests'
            else:
                if 'protoerr' not in o:
                    return 'a response to an id that is not outstanding was not rejected as a protocol error'
                if o['pending'] != pend:
                    return 'a rejected response disturbed the outstanding requests'
            pend = o['pending']
        return None

    def extra_checks(self, ctx):
        """requests whose caller gave up (the awaitable was cancelled - a timeout, a cancelled task) while they are still
        outstanding: the peer's late response must be consumed quietly and every other outstanding request still completes
        with what the peer sent under its id"""
        import asyncio, itertools
        from aiorpcx import jsonrpc
        from harness.core import Failure
        out = []
        n = 0
        for pname in ('v1', 'v2', 'loose', 'auto'):
            for nreq, abandoned in ((3, (0,)), (3, (1,)), (4, (0, 2)), (2, (0, 1)), (5, (4,))):
                for order in itertools.islice(itertools.permutations(range(nreq)), 0, 24, 5):
                    loop = asyncio.new_event_loop()
                    asyncio.set_event_loop(loop)
                    try:
                        conn = jsonrpc.JSONRPCConnection(cm.cc.proto_class(pname))
                        futs = [conn.send_request(jsonrpc.Request('m%d' % i, [i]))[1] for i in range(nreq)]
                        for i in abandoned:
                            futs[i].cancel()
                        obs = {'escaped': None, 'results': {}}
                        for i in order:
                            payload = {'id': i, 'result': i * 10}
                            if pname != 'v1':
                                payload['jsonrpc'] = '2.0'
                            else:
                                payload['error'] = None
                            try:
                                conn.receive_message(json.dumps(payload).encode())
                            except jsonrpc.ProtocolError as e:
                                obs['escaped'] = 'ProtocolError: ' + str(e)[:80]
                            except BaseException as e:
                                obs['escaped'] = type(e).__name__
                                break
                        for i, f in enumerate(futs):
                            obs['results'][str(i)] = ('cancelled' if f.cancelled() else 'pending' if not f.done()
                                                      else repr(f.exception()) if f.exception() else f.result())
                        obs['still_outstanding'] = len(conn._requests)
                    finally:
                        loop.close()
                        asyncio.set_event_loop(None)
                    n += 1
                    case = {'kind': 'abandoned', 'proto': pname, 'requests': nreq, 'abandoned': list(abandoned), 'response_order': list(order)}
                    cl = None
                    if obs['escaped']:
                        cl = (f"the late response to a request whose caller had given up made receive_message raise {obs['escaped']} "
                              '(it must be consumed quietly: the id was outstanding)')
                    elif any(obs['results'][str(i)] != i * 10 for i in range(nreq) if i not in abandoned):
                        cl = 'a request did not complete with what the peer sent under its id after a late response to an abandoned request'
                    elif obs['still_outstanding']:
                        cl = 'ids stayed outstanding although every one of them was answered'
                    if cl:
                        out.append(Failure(case, obs, cl))
                        break
                if out:
                    break
        ctx['extra_evals'] += n
        ctx['notes'].append(f'abandoned requests (awaitable cancelled while outstanding) answered late, in several response orders: {n} histories')
        # the same on a real RPCSession: one request runs into sent_request_timeout while other requests and a batch are
        # outstanding; each of those still completes with exactly what the peer later sends under its id
        from harness import sessions
        from aiorpcx import session as session_mod, curio
        ns = 0
        for transport in ('rs', 'us'):
            loop = sessions.new_loop()
            try:
                class S(session_mod.RPCSession):
                    sent_request_timeout = 1.0
                proto, ft, s = sessions.attach(S, 'client', transport)
                res = {}

                async def call(name, coro_fn):
                    try:
                        res[name] = ['result', await coro_fn()]
                    except curio.TaskTimeout:
                        res[name] = ['TaskTimeout']
                    except asyncio.CancelledError:
                        res[name] = ['cancelled']
                    except Exception as e:
                        res[name] = ['other', type(e).__name__]

                async def batch():
                    async with s.send_batch() as b:
                        b.add_request('m', ['b1'])
                        b.add_request('m', ['b2'])
                    return list(b.results)

                async def main():
                    await sessions.settle(3)
                    tasks = [loop.create_task(call('A', lambda: s.send_request('m', ['A'])))]      # never answered: times out at 1.0
                    await asyncio.sleep(0.5)
                    tasks.append(loop.create_task(call('B', lambda: s.send_request('m', ['B']))))
                    tasks.append(loop.create_task(call('C', batch)))
                    await asyncio.sleep(0.7)                                                       # t = 1.2: A has timed out
                    sent = sessions.sent_messages(ft, 0)
                    ids = {}
                    for m_ in sent:
                        for x in (m_ if isinstance(m_, list) else [m_]):
                            ids[x['params'][0]] = x['id']
                    proto.data_received(json.dumps({'jsonrpc': '2.0', 'id': ids['B'], 'result': 'for B'}).encode() + b'\n')
                    proto.data_received(json.dumps([{'jsonrpc': '2.0', 'id': ids['b2'], 'result': 'for b2'},
                                                    {'jsonrpc': '2.0', 'id': ids['b1'], 'result': 'for b1'}]).encode() + b'\n')
                    await asyncio.sleep(0.2)
                    await asyncio.wait(tasks, timeout=10)
                    return dict(res)
                obs = loop.run_until_complete(main())
            finally:
                sessions.close_loop(loop)
            ns += 1
            want = {'A': ['TaskTimeout'], 'B': ['result', 'for B'], 'C': ['result', ['for b1', 'for b2']]}
            if obs != want:
                out.append(Failure({'kind': 'session_timeout', 'transport': transport}, {'outcomes': jv.to_plain(obs), 'expected': jv.to_plain(want)},
                                   'after one request ran into the response wait limit, the other outstanding requests did not complete with what '
                                   'the peer sent under their ids'))
        ctx['extra_evals'] += ns
        ctx['notes'].append(f'one request timing out on a real RPCSession while others are outstanding: {ns} scenarios')
        # on a real RPCSession: (a) answers of every kind - result, error object, malformed response with a recoverable id -
        # reach their callers unchanged also while the session is lowering its outgoing concurrency; (b) responses that
        # answer nothing outstanding (unused id, replayed single, replayed batch) are refused without disturbing the requests that are
        from aiorpcx import RPCError, ProtocolError
        nr = 0
        for transport in ('rs', 'us'):
            for scenario in ('lowered_concurrency', 'stray_responses'):
                loop = sessions.new_loop()
                try:
                    proto, ft, s = sessions.attach(session_mod.RPCSession, 'client', transport)
                    res = {}

                    async def call2(name, coro_fn):
                        try:
                            res[name] = ['result', await coro_fn()]
                        except RPCError as e:
                            res[name] = ['RPCError', e.code, e.message]
                        except ProtocolError as e:
                            res[name] = ['ProtocolError', e.code]
                        except asyncio.CancelledError:
                            res[name] = ['cancelled']
                        except Exception as e:
                            res[name] = ['other', type(e).__name__]

                    async def batch2():
                        async with s.send_batch() as b:
                            b.add_request('m', ['b1'])
                            b.add_request('m', ['b2'])
                        return [r if not isinstance(r, Exception) else ['exc', type(r).__name__, getattr(r, 'code', None)] for r in b.results]

                    def send(obj):
                        proto.data_received(json.dumps(obj).encode() + b'\n')

                    async def main2():
                        await sessions.settle(3)
                        names = ['r%d' % i for i in range(8)]
                        tasks = [loop.create_task(call2(nm_, (lambda nm_=nm_: s.send_request('m', [nm_])))) for nm_ in names]
                        tasks.append(loop.create_task(call2('B', batch2)))

                        async def batch_of_one():
                            async with s.send_batch() as b:
                                b.add_request('m', ['only'])
                            return [r if not isinstance(r, Exception) else ['exc', type(r).__name__, getattr(r, 'code', None)] for r in b.results]
                        tasks.append(loop.create_task(call2('B1', batch_of_one)))
                        await asyncio.sleep(0.2)
                        ids = {}
                        for m_ in sessions.sent_messages(ft, 0):
                            for x in (m_ if isinstance(m_, list) else [m_]):
                                ids[x['params'][0]] = x['id']
                        want = {}
                        if scenario == 'lowered_concurrency':
                            s._outgoing_concurrency.set_target(2)
                        else:
                            send({'jsonrpc': '2.0', 'id': 987654, 'result': 'nobody asked'})
                            await asyncio.sleep(0.05)
                            send({'jsonrpc': '2.0', 'id': ids['r0'], 'result': 'for r0'})
                            await asyncio.sleep(0.05)
                            send({'jsonrpc': '2.0', 'id': ids['r0'], 'result': 'replayed'})
                            await asyncio.sleep(0.05)
                            send([{'jsonrpc': '2.0', 'id': 555, 'result': 1}, {'jsonrpc': '2.0', 'id': 556, 'result': 2}])
                            await asyncio.sleep(0.05)
                            send({'jsonrpc': '2.0', 'id': None, 'error': {'code': 3, 'message': 'diagnostic'}})
                            await asyncio.sleep(0.05)
                            want['r0'] = ['result', 'for r0']
                        for i, nm_ in enumerate(names):
                            if nm_ in want:
                                continue
                            kind = i % 3
                            if kind == 0:
                                send({'jsonrpc': '2.0', 'id': ids[nm_], 'result': 'for ' + nm_})
                                want[nm_] = ['result', 'for ' + nm_]
                            elif kind == 1:
                                send({'jsonrpc': '2.0', 'id': ids[nm_], 'error': {'code': 40 + i, 'message': 'no ' + nm_}})
                                want[nm_] = ['RPCError', 40 + i, 'no ' + nm_]
                            else:
                                send({'jsonrpc': '2.0', 'id': ids[nm_], 'result': 1, 'error': {'code': 1, 'message': 'both'}})
                                want[nm_] = ['ProtocolError', -32600]
                            await asyncio.sleep(0.05)
                        send([{'jsonrpc': '2.0', 'id': ids['b2'], 'error': {'code': 9, 'message': 'no b2'}}, {'jsonrpc': '2.0', 'id': ids['b1'], 'result': 'for b1'}])
                        want['B'] = ['result', ['for b1', ['exc', 'RPCError', 9]]]
                        # a batch of ONE request: one outcome per member - the peer mirrors the grouping it was sent
                        sent_as_array = any(isinstance(m_, list) and any(x.get('params') == ['only'] for x in m_) for m_ in sessions.sent_messages(ft, 0))
                        err1 = {'jsonrpc': '2.0', 'id': ids['only'], 'error': {'code': 11, 'message': 'no'}}
                        send([err1] if sent_as_array else err1)
                        want['B1'] = ['result', [['exc', 'RPCError', 11]]]
                        await asyncio.sleep(0.3)
                        await asyncio.wait(tasks, timeout=10)
                        for t in tasks:
                            t.cancel()
                        return dict(res), want, not proto._process_messages_task.done()
                    obs2, want2, alive = loop.run_until_complete(main2())
                finally:
                    sessions.close_loop(loop)
                nr += 1
                if obs2 != want2 or not alive:
                    out.append(Failure({'kind': 'session_answers', 'scenario': scenario, 'transport': transport},
                                       {'outcomes': jv.to_plain(obs2), 'expected': jv.to_plain(want2), 'message_loop_alive': alive},
                                       ('while the session was lowering its outgoing concurrency, ' if scenario == 'lowered_concurrency' else
                                        'after responses that answer nothing outstanding (unused id, replayed single, unsolicited batch, diagnostic error), ')
                                       + 'the outstanding requests did not each complete with exactly the result / error the peer sent under their ids'))
        ctx['extra_evals'] += nr
        ctx['notes'].append(f'answers of every kind on a real RPCSession while its outgoing concurrency is lowered, and after stray responses: {nr} scenarios')
        return out

    def nontrivial(self, case, obs):
        return any(o['pending'] >= 3 for o in obs['obs']) and any(op[0] == 'send_batch' for op in case['ops'])

    def histogram(self, case, obs):
        h = ['proto=' + case['proto']]
        for ex in case['expects']:
            if ex:
                h.append('rx_' + ex[0])
        return h


PROP = C01()
