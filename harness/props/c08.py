"""C08 - losing or closing a connection releases every waiter and leaves no task behind
(model/Lifecycle.v).  A real server session (RPCSession or MessageSession) over the real
RSTransport / USTransport classes and a fake asyncio transport runs a scripted conversation on
the single-step loop; a fault (link drop, peer close, close(), two concurrent close(), abort(),
close() from inside a handler, repeated close()) is injected at a chosen handle index.  The run
is observed from outside (wrapped bound methods, task and future states) and projected to the
labels of the life-cycle LTS."""
import asyncio
import json
from harness.steploop import StepLoop
from harness.vloop import FakeTransport
from harness.core import Prop, c_N, c_nat, c_bool, c_list

FAULTS = ['drop', 'close', 'close2', 'abort', 'handler_close', 'close_twice', 'abort_then_close']


class PT(asyncio.tasks._PyTask):
    cancel_log = None

    def cancel(self, msg=None):
        if PT.cancel_log is not None:
            PT.cancel_log.append(self)
        return super().cancel(msg)


def run_scenario(case):
    import aiorpcx.session as S
    from aiorpcx import RPCSession, MessageSession
    from aiorpcx.rawsocket import RSTransport
    from aiorpcx.unixsocket import USTransport
    from aiorpcx.session import SessionKind

    import logging
    import sys
    logging.disable(logging.CRITICAL)
    sys.unraisablehook = lambda *a: None       # coroutines of abandoned scenario tasks collected at exit
    loop = StepLoop()
    asyncio.set_event_loop(loop)
    loop.set_task_factory(lambda lp, coro: PT(coro, loop=lp))

    class Clock:
        @staticmethod
        def time():
            return loop.time() + 1700000000.0      # wall clock and loop clock differ, as they do in reality
    saved_time = S.time
    S.time = Clock
    try:
        return _run(case, loop, S, RPCSession, MessageSession, RSTransport, USTransport, SessionKind)
    finally:
        S.time = saved_time
        PT.cancel_log = None
        asyncio.set_event_loop(None)


def _run(case, loop, S, RPCSession, MessageSession, RSTransport, USTransport, SessionKind):
    kind, graceful, fault, k = case['kind'], case['graceful'], case['fault'], case['k']
    tcls = RSTransport if case['tcls'] == 'raw' else USTransport
    hooks = []
    labels = []            # labels emitted by the wrappers during the current tick

    async def behave(session, name):
        if name == 'slow':
            await asyncio.sleep(5)
            return 'slept'
        if name == 'stubborn':
            try:
                await asyncio.sleep(5)
            except asyncio.CancelledError:
                await asyncio.sleep(1)
                raise
        if name == 'closeme':
            await session.close()
            return 'closed'
        if name == 'boom':
            raise KeyError('boom')
        if name == 'selfcancel':          # e.g. the handler awaited a future that somebody cancelled
            raise asyncio.CancelledError()
        return 'ok'

    if kind == 'rpc':
        class Srv(RPCSession):
            processing_timeout = 1000.0

            async def connection_lost(self):
                hooks.append(loop.time())
                await super().connection_lost()

            async def handle_request(self, request):
                return await behave(self, request.method)
    else:
        class Srv(MessageSession):
            processing_timeout = 1000.0

            async def connection_lost(self):
                hooks.append(loop.time())
                await super().connection_lost()

            async def handle_message(self, message):
                return await behave(self, message[0])

    class FT(FakeTransport):
        def close(self):
            if graceful:
                return super().close()
            self.closing = True            # a graceful close that never completes (unsent data, silent peer)

    p = tcls(Srv, None, SessionKind.SERVER)
    t = FT(p, None)

    def in_loop(f, *a):
        asyncio.events._set_running_loop(loop)
        try:
            return f(*a)
        finally:
            asyncio.events._set_running_loop(None)
    in_loop(p.connection_made, t)
    s = p.session
    if kind == 'rpc' and case.get('out_limit'):
        # a session whose outgoing limit has adapted down to a small value (fresh limiter: set_target lowers lazily)
        s._outgoing_concurrency = S.Concurrency(case['out_limit'])
    pm_task = p._process_messages_task

    # ---- observation from outside
    members = {}            # task -> id  (0 = the message loop)
    closer_of = {}          # task -> stack of closer ids
    ncloser = [0]
    closer_tasks = {}       # closer id -> returned?
    group = s._group
    orig_spawn = group.spawn

    async def spawn(coro, *a, **kw):
        task = await orig_spawn(coro, *a, **kw)
        if not members:
            members[task] = 0
        else:
            members[task] = len(members)
            labels.append(['arrive', members[task]])
        return task
    group.spawn = spawn

    orig_close = s.close
    at_return = []

    async def close(**kw):
        me = asyncio.current_task()
        ncloser[0] += 1
        c = ncloser[0]
        owner = members.get(me)
        labels.append(['closecall', c, owner if owner else None])
        closer_of.setdefault(me, []).append(c)
        closer_tasks[c] = False
        try:
            r = await orig_close(**kw)
            # the instant close() returns: the loss has been dealt with completely
            pm = getattr(p, '_process_messages_task', None)
            at_return.append({'closer': c, 'from_handler': bool(owner), 'hooks': len(hooks), 'pm_done': pm is None or pm.done(),
                              'members_running': sum(1 for mt in members if not mt.done() and mt is not me), 't': loop.time()})
            return r
        finally:
            closer_of[me].pop()
            closer_tasks[c] = True
            labels.append(['closereturn', c])
    s.close = close

    orig_abort = t.abort

    def abort():
        me = None
        try:
            me = asyncio.current_task()
        except RuntimeError:
            pass
        st = closer_of.get(me) if me is not None else None
        labels.append(['force', st[-1]] if st else ['abort'])
        return orig_abort()
    t.abort = abort

    orig_lost = p.connection_lost

    def lost(exc):
        labels.append(['lost'])
        return orig_lost(exc)
    p.connection_lost = lost

    # ---- the conversation
    outcomes, started = {}, {}

    async def caller(name, mk):
        started[name] = (not t.lost) and not hooks
        try:
            r = await mk()
            outcomes[name] = ['ok', loop.time()]
        except BaseException as e:
            outcomes[name] = [type(e).__name__, loop.time()]

    async def batch():
        async with s.send_batch() as b:
            b.add_request('x')
            b.add_request('y')
        return b.results

    def feed(data):
        if not t.lost and not t.closing:
            in_loop(p.data_received, data)

    def req(method, rid):
        if kind == 'rpc':
            return json.dumps({'jsonrpc': '2.0', 'method': method, 'id': rid}).encode() + b'\n'
        return s.transport._framer.frame((method.encode()[:12], b'pay'))

    tasks = []
    rid = [0]

    def do(op):
        if op[0] == 'req':
            rid[0] += 1
            feed(req(op[1], rid[0]))
        elif op[0] == 'call' and kind == 'rpc':
            tasks.append(loop.create_task(caller('r%d' % len(tasks), lambda: s.send_request('a'))))
        elif op[0] == 'batch' and kind == 'rpc':
            tasks.append(loop.create_task(caller('b%d' % len(tasks), batch)))
        elif op[0] == 'pause':
            if not t.lost:
                in_loop(p.pause_writing)
        elif op[0] == 'resume':
            if not t.lost:
                in_loop(p.resume_writing)
        elif op[0] == 'answer' and kind == 'rpc':
            # the peer answers the oldest outstanding single request
            for key in list(s.connection._requests):
                if isinstance(key, int):
                    feed(json.dumps({'jsonrpc': '2.0', 'result': 1, 'id': key}).encode() + b'\n')
                    break
        elif op[0] == 'garbage':
            feed(b'{not json}\n' if kind == 'rpc' else b'\x00' * 30)

    closers = []

    def do_fault():
        mk = lambda nm, co: closers.append(loop.create_task(caller(nm, co)))
        if fault == 'drop':
            t._lost()
        elif fault == 'close':
            mk('close', lambda: s.close(force_after=30))
        elif fault == 'close2':
            mk('closeA', lambda: s.close(force_after=30))
            mk('closeB', lambda: s.close(force_after=10))
        elif fault == 'abort':
            mk('abort', lambda: s.abort())
        elif fault == 'handler_close':
            rid[0] += 1
            feed(req('closeme', rid[0]))
        elif fault == 'close_twice':
            async def twice():
                await s.close(force_after=30)
                await s.close(force_after=30)
            mk('twice', twice)
        elif fault == 'abort_then_close':
            async def both():
                await s.abort()
                await s.close(force_after=30)
            mk('both', both)

    requested = set()       # member tasks on which cancel() was called
    known_waiters = {}      # future -> id
    late_waiters = set()    # registered after the hook ran: outside the property
    prev = {'loop_done': False, 'closed': False, 'hdone': set(), 'wdone': set()}

    def handler_states():
        return {i: tk for tk, i in members.items() if i != 0}

    def snapshot_and_derived():
        derived = []
        if kind == 'rpc':
            for key, fut in list(s.connection._requests.items()):
                fo = next((x for x in (fut if isinstance(fut, tuple) else (fut,)) if hasattr(x, 'cancelled')), None)
                if fo is not None and fo not in known_waiters:
                    known_waiters[fo] = len(known_waiters) + 1
                    if hooks:
                        late_waiters.add(known_waiters[fo])
                    derived.append(['waiter', known_waiters[fo]])
        hook_now = bool(hooks) and not prev.get('hook_seen')
        prev['hook_seen'] = bool(hooks)
        for fo, w in known_waiters.items():
            if fo.done() and w not in prev['wdone']:
                prev['wdone'].add(w)
                if not fo.cancelled():
                    derived.append(['resolve', w])
                elif w in late_waiters or not hook_now:
                    derived.append(['giveup', w])      # its own timeout; at the hook's tick the hook cancelled it
        for i, tk in sorted(handler_states().items()):
            if tk.done() and i not in prev['hdone']:
                prev['hdone'].add(i)
                # "its result() raises in the body of process_messages": an exception, or a cancellation nobody asked for
                raised = (tk.exception() is not None) if not tk.cancelled() else (tk not in requested)
                derived.append(['hdone', i, raised])
        loop_task = next((tk for tk, i in members.items() if i == 0), None)
        loop_done = bool(loop_task is not None and loop_task.done())
        if loop_done and not prev['loop_done']:
            prev['loop_done'] = True
            derived.append(['loopend'])
        closed = p._closed_event.is_set()
        if closed and not prev['closed']:
            prev['closed'] = True
            derived.append(['groupexit'])
        snap = {'lost': t.lost, 'loop_done': loop_done, 'hook': len(hooks), 'closed': closed,
                'hdone': sorted(prev['hdone']),
                'wpending': sorted(w for fo, w in known_waiters.items() if not fo.done() and w not in late_waiters),
                'creturned': sorted(c for c, r in closer_tasks.items() if r)}
        return derived, snap

    trace = []
    lost_time = [None]
    fault_time = [None]
    pm_done_at_fault = [None]
    script = list(case['script'])
    n = si = 0
    faulted = False
    group_cancel_seen = False
    idle = False
    while True:
        labels.clear()
        if n == k and not faulted:
            pm_done_at_fault[0] = pm_task.done()
            fault_time[0] = loop.time()
            in_loop(do_fault)
            faulted = True
        if si < len(script) and n % 2 == 0:
            do(script[si])
            si += 1
        PT.cancel_log = []
        h = loop.tick()
        log = PT.cancel_log
        PT.cancel_log = None
        requested.update(log)
        n += 1
        tick_labels = list(labels)
        if h is not None and log:
            owner = getattr(h._callback, '__self__', None)
            mem = [tk for tk in log if tk in members]
            if owner is pm_task and mem and not group_cancel_seen:
                group_cancel_seen = True
                tick_labels.append(['groupcancel'])
            elif owner is not pm_task:
                for tk in mem:
                    if members[tk] != 0 and not tk.done():
                        tick_labels.append(['cancelreq', members[tk]])
        derived, snap = snapshot_and_derived()
        if t.lost and lost_time[0] is None:
            lost_time[0] = loop.time()
        trace.append([tick_labels + derived, snap])
        if h is None and si >= len(script):
            idle = True
            break
        if loop.time() > 400 or n > 6000:
            break
    if not faulted:
        return {'skipped': True}
    left = [x for x in asyncio.all_tasks(loop) if not x.done()]
    res = {'at_close_return': at_return, 'trace': trace, 'idle': idle, 'hooks': len(hooks), 'hook_time': hooks[0] if hooks else None,
           'lost_time': lost_time[0], 'fault_time': fault_time[0], 'pm_done_at_fault': pm_done_at_fault[0],
           'left': len(left), 'lost': t.lost, 'closers_done': all(c.done() for c in closers), 'pm_done': pm_task.done(),
           'outcomes': outcomes, 'started': started, 'time': loop.time(), 'ticks': n,
           'handlers': {str(i): [tk.done(), tk.cancelled() if tk.done() else None] for i, tk in handler_states().items()},
           'loop_exc': [str(e.get('exception'))[:80] for e in loop.exc][:3]}
    for x in left:
        x.cancel()
    loop.drain(20000)
    return res


# ---------------------------------------------------------------- Coq terms
def label_term(l):
    k = l[0]
    if k == 'arrive':
        return f'(LArrive {c_N(l[1])})'
    if k == 'waiter':
        return f'(LWaiter {c_N(l[1])})'
    if k == 'resolve':
        return f'(LResolve {c_N(l[1])})'
    if k == 'giveup':
        return f'(LGiveUp {c_N(l[1])})'
    if k == 'closecall':
        return f"(LCloseCall {c_N(l[1])} {'(@None N)' if l[2] is None else '(Some ' + c_N(l[2]) + ')'})"
    if k == 'abort':
        return 'LAbort'
    if k == 'lost':
        return 'LLost'
    if k == 'loopend':
        return 'LLoopEnd'
    if k == 'groupcancel':
        return 'LGroupCancel'
    if k == 'cancelreq':
        return f'(LCancelReq {c_N(l[1])})'
    if k == 'hdone':
        return f'(LHandlerDone {c_N(l[1])} {c_bool(l[2])})'
    if k == 'groupexit':
        return 'LGroupExit'
    if k == 'closereturn':
        return f'(LCloseReturn {c_N(l[1])})'
    if k == 'force':
        return f'(LForce {c_N(l[1])})'
    raise ValueError(k)


def snap_term(s):
    nl = lambda xs: c_list([c_N(x) for x in xs], 'N')
    return (f"{{| ls_lost := {c_bool(s['lost'])}; ls_loop_done := {c_bool(s['loop_done'])}; ls_hook := {c_nat(s['hook'])}; "
            f"ls_closed := {c_bool(s['closed'])}; ls_handlers_done := {nl(s['hdone'])}; "
            f"ls_waiters_pending := {nl(s['wpending'])}; ls_closers_returned := {nl(s['creturned'])} |}}")


SCRIPTS = [
    [['req', 'slow'], ['req', 'stubborn'], ['call'], ['batch'], ['req', 'fast'], ['pause'], ['call'], ['req', 'fast']],
    [['call'], ['call'], ['call'], ['call'], ['req', 'fast'], ['answer'], ['req', 'slow'], ['batch']],
    [['req', 'stubborn'], ['req', 'boom'], ['req', 'slow'], ['garbage'], ['call'], ['pause'], ['req', 'fast'], ['resume']],
    [['req', 'slow'], ['req', 'slow'], ['req', 'slow'], ['pause'], ['req', 'fast'], ['req', 'fast'], ['call'], ['batch']],
    [['call'], ['req', 'slow'], ['batch'], ['req', 'selfcancel'], ['req', 'fast'], ['call']],
]


class C08(Prop):
    id = 'C08'
    coq_header = 'From AV Require Import Base Lifecycle.'
    case_type = 'list (list llabel * lsnap) * bool'
    check_fn = 'life_ok'
    sizes = {'quick': 640, 'thorough': 9000}
    shard = 40
    case_timeout = 60
    rule = ('a real server session (RPCSession and MessageSession) over the real RSTransport and USTransport classes and a fake '
            'asyncio transport on a single-step loop with virtual time: scripted conversations (slow / stubborn / failing / fast '
            'handlers, outgoing requests and batches, answers, writers blocked by pause_writing, garbage) with a fault - link '
            'drop, close(), two concurrent close() with different force_after, abort(), close() inside a handler, close() '
            'twice, abort() then close() - injected at a chosen handle index, graceful close completing or never completing; '
            'the run is projected to life-cycle labels and compared with the model after EVERY loop handle (link lost, loop '
            'ended, hook count, _closed_event, finished handlers, pending waiters, returned close() calls); the oracle is '
            'computed from the real run alone; non-trivial = fault injected while at least one handler ran or one caller '
            'waited; distinct = distinct (script, fault, index, transport, kind, graceful)')
    trusted = ('harness/steploop.py, harness/vloop.py FakeTransport (close -> connection_lost on the next loop iteration; a '
               'non-completing close never calls it)',)

    def corpus(self):
        base = {'kind': 'rpc', 'tcls': 'raw', 'graceful': True, 'script': SCRIPTS[0], 'out_limit': 0}
        return [dict(base, fault='drop', k=9), dict(base, fault='close2', k=12, graceful=False),
                dict(base, fault='handler_close', k=7), dict(base, fault='close', k=14, script=SCRIPTS[1], out_limit=2)]

    def generate(self, rng, n, tier):
        for i in range(n):
            sc = rng.choice(SCRIPTS) if rng.random() < 0.7 else [rng.choice(
                [['req', 'slow'], ['req', 'stubborn'], ['req', 'fast'], ['req', 'boom'], ['req', 'selfcancel'], ['call'], ['batch'], ['pause'],
                 ['resume'], ['answer'], ['garbage']]) for _ in range(rng.randint(3, 10))]
            yield {'kind': rng.choice(['rpc', 'rpc', 'msg']), 'tcls': rng.choice(['raw', 'unix']),
                   'graceful': rng.random() < 0.7, 'fault': rng.choice(FAULTS), 'k': rng.randrange(0, 24),
                   'script': sc, 'out_limit': rng.choice([0, 0, 2, 3])}

    def run_impl(self, case):
        return run_scenario(case)

    def coq_case(self, case, obs):
        if obs.get('skipped'):
            return None
        ticks = [f"({c_list([label_term(l) for l in ls], 'llabel')}, {snap_term(sn)})" for ls, sn in obs['trace']]
        return f"({c_list(ticks, 'list llabel * lsnap')}, {c_bool(obs['idle'])})"

    def coq_show(self, case, obs):
        t = self.coq_case(case, obs)
        return None if t is None else f"let '(tr, idle) := {t} in (fst (lfirstbad linit tr 0))"

    def oracle(self, case, obs):
        if obs.get('skipped'):
            return None
        if obs['loop_exc']:
            return 'an exception escaped into the event loop: ' + obs['loop_exc'][0]
        if not obs['lost']:
            # (when message processing had already ended - a handler's own cancellation ends it - close() finds
            # _closed_event set and has nothing to wait for: out of this property's scope)
            if case['fault'] in ('drop', 'close', 'close2', 'abort', 'close_twice', 'abort_then_close') \
                    and not obs.get('pm_done_at_fault') \
                    and not any(l[0] == 'hdone' and l[2] for ls, _ in obs['trace'] for l in ls):
                return 'the connection was never lost although it was dropped / closed / aborted'
            return None
        for r in obs.get('at_close_return', ()):
            if not r['from_handler'] and (r['hooks'] < 1 or not r['pm_done'] or r['members_running']):
                return (f"close() returned (t={r['t']}) before the loss had been dealt with: connection-lost hook run {r['hooks']} times, "
                        f"message processing {'finished' if r['pm_done'] else 'still running'}, {r['members_running']} handler task(s) still running")
        if obs['hooks'] != 1:
            return f"the connection-lost hook ran {obs['hooks']} times"
        if not obs['idle']:
            return 'the session did not become quiescent after the connection was lost'
        if not obs['pm_done']:
            return 'message processing never finished after the connection was lost'
        if not obs['closers_done']:
            return 'a close() / abort() call never returned'
        if obs['left']:
            return f"{obs['left']} task(s) survive the connection"
        for i, (done, canc) in obs['handlers'].items():
            if not done:
                return f'handler {i} still running at the end'
        # released no later than the hook / the loss, whichever came last (a handler's own cancellation can
        # end message processing, and run the hook, long before the connection goes)
        ht = max(obs['hook_time'], obs.get('lost_time') or 0)
        for name, started in obs['started'].items():
            if name[0] in 'rb' and name[1:].isdigit() and started:
                oc = obs['outcomes'].get(name)
                if oc is None:
                    return f'caller {name} is left waiting'
                # released by its own timeout before (or as the cause of) the loss is not "left waiting"
                if oc[1] > ht + 1e-6 or (oc[1] == ht and oc[0] not in ('ok', 'CancelledError', 'TaskTimeout')):
                    return f'caller {name} waiting at the loss was released with {oc[0]} at t={oc[1]} (hook ran at t={ht})'
        for name, oc in obs['outcomes'].items():
            if name.startswith('close') or name in ('twice', 'both'):
                limit = 10 if name == 'closeB' else 30
                if oc[0] not in ('ok',):
                    return f'{name} ended with {oc[0]}'
                # close(force_after=T) returns within T of the call, forcing an abort if the graceful close has not finished
                if obs.get('fault_time') is not None and oc[1] > obs['fault_time'] + limit + 1.0:
                    return (f'close(force_after={limit}) called at t={obs["fault_time"]} returned only at t={oc[1]}'
                            + (' (another close was already under way)' if case['fault'] == 'close2' else ''))
        if case['fault'] in ('close', 'close2', 'close_twice', 'abort_then_close'):
            want = {'close': ['close'], 'close2': ['closeA', 'closeB'], 'close_twice': ['twice'], 'abort_then_close': ['both']}[case['fault']]
            for name in want:
                if name not in obs['outcomes']:
                    return f'{name}: the call of close() never returned'
        return None

    def extra_checks(self, ctx):
        """a session that refuses its connection from the constructor (close() / abort() scheduled before the message-processing
        task has taken its first step - too many sessions, a banned peer): the connection-lost hook still runs exactly once,
        the connection is lost and nothing is left behind"""
        import asyncio
        from harness.core import Failure
        from harness import sessions
        from aiorpcx import session
        out, n = [], 0
        for kind in ('rpc', 'msg'):
            for transport in ('rs', 'us'):
                for action in ('close', 'abort', 'close_later'):
                    loop = sessions.new_loop()
                    hooks = []
                    try:
                        base = session.RPCSession if kind == 'rpc' else session.MessageSession

                        class S(base):
                            def __init__(self, *a, **k):
                                super().__init__(*a, **k)
                                if action == 'close_later':
                                    self.loop.call_later(0.02, lambda: self.loop.create_task(self.close()))
                                else:
                                    self.loop.create_task(self.close() if action == 'close' else self.abort())

                            async def connection_lost(self):
                                hooks.append(1)
                                await super().connection_lost()
                        proto, ft, s = sessions.attach(S, 'server', transport)

                        async def main():
                            await asyncio.sleep(1.0)
                            await sessions.settle(10)
                            pm = proto._process_messages_task
                            return {'hooks': len(hooks), 'lost': bool(ft.lost), 'pm_done': pm.done(),
                                    'left': sum(1 for x in asyncio.all_tasks(loop) if not x.done()) - 1}
                        obs = loop.run_until_complete(main())
                    finally:
                        sessions.close_loop(loop)
                    n += 1
                    case = {'kind': 'refuse_at_start', 'session': kind, 'transport': transport, 'action': action}
                    cl = None
                    if obs['hooks'] != 1:
                        cl = f"the connection-lost hook ran {obs['hooks']} times (the session closed its connection from its constructor)"
                    elif not obs['lost'] or not obs['pm_done'] or obs['left']:
                        cl = (f"after a session closed its connection from its constructor: lost={obs['lost']}, message processing "
                              f"finished={obs['pm_done']}, {obs['left']} task(s) left")
                    if cl:
                        out.append(Failure(case, obs, cl))
        ctx['extra_evals'] += n
        ctx['notes'].append(f'sessions that close / abort their connection from the constructor: {n} scenarios')
        return out[:3]

    def nontrivial(self, case, obs):
        if obs.get('skipped'):
            return False
        return bool(obs['handlers']) or any(obs['started'].values())

    def key(self, case, obs):
        return json.dumps([case['script'], case['fault'], case['k'], case['tcls'], case['kind'], case['graceful'], case['out_limit']])

    def histogram(self, case, obs):
        if obs.get('skipped'):
            return ['fault_after_end']
        return ['fault=' + case['fault'], 'kind=' + case['kind'], 'tcls=' + case['tcls'],
                'graceful' if case['graceful'] else 'close_never_completes',
                'handlers=%d' % len(obs['handlers']), 'callers=%d' % sum(1 for n in obs['started'] if n[0] in 'rb' and n[1:].isdigit())]


PROP = C08()
