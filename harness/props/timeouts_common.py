"""Shared by C11 and C12: small timeout programs compiled to real coroutines over aiorpcx.curio,
run on a virtual-time SelectorEventLoop.  Time unit: 1/16 s (program constants are even,
the external cancel instant is odd, so the cancel never coincides with a deadline)."""
import asyncio, heapq
from harness.vloop import VLoop
from harness.core import c_Z, c_list, c_bool

TICK = 1.0 / 16
EXN = {'CancelledError': 'ECancelled', 'TaskTimeout': 'ETaskTimeout', 'TimeoutCancellationError': 'ETimeoutCancellation',
       'UncaughtTimeoutError': 'EUncaught', 'KeyError': 'EUser'}


class TLoop(VLoop):
    """VLoop that notices when two timers are due at the same instant (asyncio leaves their
    order to the heap: such runs are outside the model and are skipped)"""

    def __init__(self):
        super().__init__()
        self.tie = False

    def _run_once(self):
        if not self._ready:
            live = [h for h in self._scheduled if not h._cancelled]
            if live:
                m = min(h._when for h in live)
                if sum(1 for h in live if h._when <= max(m, self.time())) >= 2:
                    self.tie = True
        super()._run_once()


def exc_classes():
    from aiorpcx import curio
    return {'KeyError': KeyError, 'TaskTimeout': curio.TaskTimeout,
            'TimeoutCancellationError': curio.TimeoutCancellationError,
            'UncaughtTimeoutError': curio.UncaughtTimeoutError, 'CancelledError': asyncio.CancelledError}


async def real_ev(p, log, loop, EXC):
    from aiorpcx import curio
    k = p[0]
    if k == 'await':
        await asyncio.sleep(p[1] * TICK)
    elif k == 'seq':
        await real_ev(p[1], log, loop, EXC)
        await real_ev(p[2], log, loop, EXC)
    elif k == 'skip':
        pass
    elif k == 'raise':
        raise EXC[p[1]](1) if p[1] in ('TaskTimeout', 'TimeoutCancellationError') else EXC[p[1]]()
    elif k == 'try':
        try:
            await real_ev(p[1], log, loop, EXC)
        except tuple(EXC[c] for c in p[2]) as e:
            if type(e).__name__ not in p[2]:
                raise                      # exact-class semantics of the DSL
            await real_ev(p[3], log, loop, EXC)
    elif k == 'block':
        _, kind, ab, t, body, form = p
        fn = {('timeout', False): curio.timeout_after, ('timeout', True): curio.timeout_at,
              ('ignore', False): curio.ignore_after, ('ignore', True): curio.ignore_at}[(kind, ab)]
        leaf = nblocks(body) == 0
        if form.startswith('cmlate:'):
            # the context manager object is built ahead of the `async with` that enters it: a relative deadline counts
            # from the ENTRY of the block (the model: Seq (Await d) (Block ...))
            cm = fn(t * TICK)
            await asyncio.sleep(int(form.split(':')[1]) * TICK)
        t0 = loop.time()
        dl = t * TICK if ab else t0 + t * TICK
        if form == 'cm' or form.startswith('cmlate:'):
            if form == 'cm':
                cm = fn(t * TICK)
            try:
                async with cm:
                    await real_ev(body, log, loop, EXC)
            except BaseException as e:
                log.append([type(e).__name__, cm.expired, t0, dl, loop.time(), kind, leaf])
                raise
            else:
                log.append(['normal', cm.expired, t0, dl, loop.time(), kind, leaf])
        else:
            async def bodyco():
                await real_ev(body, log, loop, EXC)
                return 'BODY'
            try:
                if kind == 'ignore':
                    r = await fn(t * TICK, bodyco, timeout_result='TIMEOUT')
                else:
                    r = await fn(t * TICK, bodyco)
            except BaseException as e:
                # the coroutine form has no `expired` attribute: a TaskTimeout at (or after) the deadline is its expiry
                log.append([type(e).__name__, type(e).__name__ == 'TaskTimeout' and loop.time() >= max(dl, t0) - 1e-9, t0, dl, loop.time(), kind, leaf])
                raise
            else:
                log.append(['normal', r == 'TIMEOUT', t0, dl, loop.time(), kind, leaf])


def run_program(case):
    p, ext = case['prog'], case.get('ext')
    EXC = exc_classes()
    loop = TLoop()
    asyncio.set_event_loop(loop)
    log = []
    info = {}

    async def top():
        await real_ev(p, log, loop, EXC)
        info['end'] = loop.time()
        info['left_at_end'] = sum(1 for h in loop._scheduled if not h._cancelled and 'timeout_task' in repr(h))
        try:
            await asyncio.sleep(400 * TICK)
        except asyncio.CancelledError:
            return 'tail-cancelled'
        return 'tail-ok'

    async def main():
        t = loop.create_task(top())

        def do_cancel():
            info['cancel_delivered'] = not t.done()
            t.cancel()
        if ext is not None:
            loop.call_at(ext * TICK, do_cancel)
        try:
            tail = await t
            out = 'ok'
        except BaseException as e:
            out = type(e).__name__
            tail = None
            info.setdefault('end', loop.time())
        left = sum(1 for h in loop._scheduled if not h._cancelled and 'timeout_task' in repr(h))
        return out, tail, left

    try:
        out, tail, left = loop.run_until_complete(main())
    finally:
        loop.close()
        asyncio.set_event_loop(None)
    return {'out': out, 'tail': tail, 'left': left, 'log': log, 'end': info.get('end'),
            'left_at_end': info.get('left_at_end', left), 'tie': loop.tie,
            'cancel_delivered': info.get('cancel_delivered', False)}


def prog_term(p):
    k = p[0]
    if k == 'await':
        return f'(Await {c_Z(p[1])})'
    if k == 'seq':
        return f'(Seq {prog_term(p[1])} {prog_term(p[2])})'
    if k == 'skip':
        return 'Skip'
    if k == 'raise':
        return f'(Raise {EXN[p[1]]})'
    if k == 'try':
        return f"(Try {prog_term(p[1])} {c_list([EXN[c] for c in p[2]], 'exn')} {prog_term(p[3])})"
    if k == 'block':
        b = f"(Block {'KTimeout' if p[1] == 'timeout' else 'KIgnore'} {c_bool(p[2])} {c_Z(p[3])} {prog_term(p[4])})"
        if p[5].startswith('cmlate:'):
            return f"(Seq (Await {c_Z(int(p[5].split(':')[1]))}) {b})"
        return b
    raise ValueError(k)


def res_term(name):
    return 'Ok' if name in ('ok', 'normal') else f'(Exc {EXN.get(name, "EUser")})'


def to_ticks(x):
    return int(round(x / TICK))


def coq_case(case, obs):
    if obs['tie']:
        return None
    if obs['out'] not in ('ok',) and obs['out'] not in EXN:
        return None
    e = 'None' if case.get('ext') is None else f"(Some {c_Z(case['ext'])})"
    lg = c_list([f"({res_term(x[0])}, {c_bool(x[1])})" for x in obs['log']], 'res * bool')
    return (f"({prog_term(case['prog'])}, {e}, {res_term(obs['out'])}, {lg}, {c_Z(to_ticks(obs['end']))}, "
            f"{c_bool(obs['tail'] == 'tail-ok')})")


HEADER = 'From AV Require Import Base Timeout.'
CASE_TYPE = 'prog * option Z * res * list (res * bool) * Z * bool'


def gen_prog(rng, depth, opts):
    r = rng.random()
    if depth == 0 or r < 0.28:
        return ['await', 2 * rng.choice([1, 3, 5, 7, 9, 11, 13])]
    if r < 0.45:
        return ['seq', gen_prog(rng, depth - 1, opts), gen_prog(rng, depth - 1, opts)]
    if r < 0.82:
        ab = rng.random() < 0.3
        t = 2 * rng.choice([0, 1, 2, 3, 4, 6, 8, 12, -1] if ab else [0, 1, 2, 3, 4, 6, 8, 12])
        return ['block', rng.choice(['timeout', 'ignore']), ab, t, gen_prog(rng, depth - 1, opts),
                rng.choice(['cm', 'cm', 'coro'] * 4 + ['cmlate:2', 'cmlate:6', 'cmlate:14'])]
    if r < 0.96:
        classes = rng.choice([['TaskTimeout'], ['TaskTimeout', 'UncaughtTimeoutError'], ['KeyError'],
                              ['UncaughtTimeoutError']] + ([['TimeoutCancellationError'], ['CancelledError']]
                                                           if opts.get('catch_cancel') else []))
        return ['try', gen_prog(rng, depth - 1, opts), classes, gen_prog(rng, depth - 1, opts)]
    if r < 0.975:
        return ['skip']
    # a user exception, or a cancellation that has nothing to do with any deadline (awaiting a future somebody cancelled)
    return ['raise', rng.choice(['KeyError', 'CancelledError', 'CancelledError'])]


def catches_cancel(p):
    k = p[0]
    if k == 'seq':
        return catches_cancel(p[1]) or catches_cancel(p[2])
    if k == 'block':
        return catches_cancel(p[4])
    if k == 'try':
        return 'CancelledError' in p[2] or 'TimeoutCancellationError' in p[2] or catches_cancel(p[1]) or catches_cancel(p[3])
    return False


def nblocks(p):
    k = p[0]
    if k == 'seq':
        return nblocks(p[1]) + nblocks(p[2])
    if k == 'block':
        return 1 + nblocks(p[4])
    if k == 'try':
        return nblocks(p[1]) + nblocks(p[3])
    return 0


def gen_foreign(rng):
    """blocks (1-3 deep, every kind and form) around a body that finishes BEFORE every deadline by raising an exception that
    merely looks like a timeout - a TaskTimeout / TimeoutCancellationError / UncaughtTimeoutError that comes from somewhere
    else (another task awaited, a failed future): no deadline has passed, so every block must let it through unchanged"""
    exc = rng.choice(['TaskTimeout', 'TaskTimeout', 'TimeoutCancellationError', 'UncaughtTimeoutError'])
    a = 2 * rng.choice([0, 1, 2])
    p = ['seq', ['await', a], ['raise', exc]] if a else ['raise', exc]
    for _ in range(rng.randrange(1, 4)):
        ab = rng.random() < 0.25
        p = ['block', rng.choice(['timeout', 'ignore']), ab, 2 * rng.choice([6, 8, 12, 20]), p, rng.choice(['cm', 'coro'])]
        if rng.random() < 0.25:
            p = ['seq', p, ['await', 2]]
        elif rng.random() < 0.2:
            p = ['try', p, [exc], ['await', 2]]
    return p


def raises_foreign(p, which=('TaskTimeout', 'TimeoutCancellationError', 'UncaughtTimeoutError')):
    k = p[0]
    if k == 'raise':
        return p[1] in which
    if k == 'seq':
        return raises_foreign(p[1], which) or raises_foreign(p[2], which)
    if k == 'block':
        return raises_foreign(p[4], which)
    if k == 'try':
        return raises_foreign(p[1], which) or raises_foreign(p[3], which)
    return False
