"""C17 - SOCKS handshake outcome depends only on reply bytes; never over-reads."""
from harness.core import Prop
from harness.props import socks_common as sc


def base_cases():
    return [
        {'proto': '4', 'host': '1.2.3.4', 'port': 80, 'user': None, 'pwd': None},
        {'proto': '4a', 'host': 'example.com', 'port': 443, 'user': 'u', 'pwd': ''},
        {'proto': '5', 'host': 'example.com', 'port': 443, 'user': None, 'pwd': None},
        {'proto': '5', 'host': '::1', 'port': 9, 'user': 'user', 'pwd': 'pass'},
    ]


def grant(case, atyp=1, alen=0, method=None):
    if case['proto'] in ('4', '4a'):
        return bytes([0, 90, 1, 2, 3, 4, 5, 6])
    m = method if method is not None else (2 if case['user'] is not None else 0)
    s = bytes([5, m]) + (b'\x01\x00' if m == 2 else b'')
    if atyp == 1:
        addr = bytes([9, 8, 7, 6])
    elif atyp == 4:
        addr = bytes(range(16))
    else:
        addr = bytes([alen]) + bytes((i * 7) % 256 for i in range(alen))
    return s + bytes([5, 0, 0, atyp]) + addr + b'\x1f\x90'


class C17(Prop):
    id = 'C17'
    coq_header = sc.HEADER
    case_type = 'c16case'
    check_fn = 'socks_ok'
    sizes = {'quick': 2500, 'thorough': 40000}
    rule = ('reply streams: every value 0..255 of every decision byte of each reply shape (exhaustive), bound-address '
            'lengths 0..255 (exhaustive), EOF at every offset, trailing application bytes, random corruptions; '
            'segmentations: full / one byte at a time / random; SOCKS4, 4a, 5 with and without authentication; '
            'non-trivial = at least one sock_recv call returned fewer bytes than asked or the stream has trailing bytes')
    assumptions = ('sock_recv returns between 1 and count bytes, or b"" at end of stream',)

    def corpus(self):
        b = base_cases()
        return [dict(b[2], kind='handshake', stream=list(grant(b[2], 3, 2)) + [71, 69, 84], ks=[1, 1, 3, 1]),
                dict(b[3], kind='handshake', stream=list(grant(b[3], 4)), ks=[1] * 40)]

    def _ks(self, rng, stream):
        style = rng.choice(['full', 'bytes', 'rand', 'rand'])
        if style == 'full':
            return []
        if style == 'bytes':
            return [1] * (len(stream) + 2)
        return [rng.randrange(0, 5) for _ in range(rng.randrange(1, 12))]

    def generate(self, rng, n, tier):
        out = []
        for b in base_cases():
            g = grant(b)
            # exhaustive: each byte of the decision-relevant prefix takes all 256 values
            npos = 2 if b['proto'] in ('4', '4a') else (len(g) - 6 + 1 if True else 0)
            for pos in range(min(len(g), 9 if b['proto'] == '5' else 2)):
                for v in range(256):
                    s = bytearray(g)
                    s[pos] = v
                    out.append(dict(b, kind='handshake', stream=list(s) + [1, 2, 3], ks=self._ks(rng, s)))
            # EOF at every offset
            for cutp in range(len(g) + 1):
                out.append(dict(b, kind='handshake', stream=list(g[:cutp]), ks=self._ks(rng, g)))
            if b['proto'] == '5':
                for alen in range(256):
                    s = grant(b, 3, alen)
                    tail = [rng.randrange(256) for _ in range(rng.randrange(0, 4))]
                    out.append(dict(b, kind='handshake', stream=list(s) + tail, ks=self._ks(rng, s)))
                    if alen % 16 == 0:
                        out.append(dict(b, kind='handshake', stream=list(s[:-1]), ks=self._ks(rng, s)))
                for atyp in (1, 4):
                    s = grant(b, atyp)
                    out.append(dict(b, kind='handshake', stream=list(s) + [9, 9], ks=[1] * 50))
                if b['user'] is not None:
                    s = grant(b, 1, 0, method=0)
                    out.append(dict(b, kind='handshake', stream=list(s), ks=[]))
        self._exhaustive = len(out)
        for c in out:
            yield c
        bs = base_cases()
        for _ in range(n):
            b = rng.choice(bs)
            s = bytearray(grant(b, rng.choice([1, 3, 4]), rng.randrange(0, 256)))
            for _ in range(rng.choice([0, 0, 1, 1, 2, 4])):
                s[rng.randrange(len(s))] = rng.choice([0, 1, 2, 3, 4, 5, 90, 91, 255, rng.randrange(256)])
            if rng.random() < 0.3:
                s = s[:rng.randrange(len(s) + 1)]
            s += bytes(rng.randrange(256) for _ in range(rng.choice([0, 0, 1, 5])))
            yield dict(b, kind='handshake', stream=list(s), ks=self._ks(rng, s))

    def run_impl(self, case):
        return sc.run_socks(case)

    def coq_case(self, case, obs):
        return sc.coq_case(case, obs)

    def oracle(self, case, obs):
        if obs['construct'] != 'ok':
            return 'client construction failed: ' + obs['construct']
        res = obs['res']
        if res.startswith('other'):
            return 'an exception other than SOCKSError escaped the handshake: ' + res
        exp = sc.ref_reply(case)
        if res != exp[0]:
            return f'outcome {res} but the reply bytes mean {exp[0]}'
        if res == 'done' and bytes(obs['left']) != exp[1]:
            return 'bytes following the handshake replies were consumed (or reply bytes left unread)'
        # segmentation independence: same stream, other segmentations
        for ks in ([], [1] * (len(case['stream']) + 3)):
            o2 = sc.run_socks(dict(case, ks=ks))
            if (o2['res'], o2['sent'], o2['left'] if res == 'done' else None) != \
               (res, obs['sent'], obs['left'] if res == 'done' else None):
                return 'outcome depends on the segmentation of the reply stream'
        return None

    def nontrivial(self, case, obs):
        return bool(case['ks']) or len(obs.get('left', [])) > 0

    def histogram(self, case, obs):
        return ['proto=' + case['proto'] + ('+auth' if case['user'] is not None else ''), 'res=' + str(obs.get('res'))]

    def extra_checks(self, ctx):
        from harness.core import Failure
        out = []
        # a proxy name with several addresses: the handshake with each address is a handshake of its own - its outcome
        # depends only on the bytes THAT connection delivered, whatever went wrong with the addresses tried before
        n = 0
        for b in base_cases():
            g = grant(b)
            refusal = bytes([0, 91, 0, 0, 0, 0, 0, 0]) if b['proto'] in ('4', '4a') else g[:len(g) - 10] + bytes([5, 2, 0, 1, 0, 0, 0, 0, 0, 0])
            firsts = [[b''], [g[:1]], [g[:3]], [g[:len(g) - 1]], [refusal], [b'\xff\xff\xff\xff\xff\xff\xff\xff\xff\xff\xff\xff'],
                      [g[:2], refusal], [b'', g[:len(g) - 2], g[:1]]]
            for first in firsts:
                for stream, ks in ((g + b'GET', []), (g + b'GET', [1] * 40), (refusal, []), (g[:len(g) - 3], [2, 1])):
                    case = dict(b, kind='connect_one', stream=list(stream), ks=ks, first=[list(x) for x in first])
                    alone = sc.run_socks(dict(b, kind='handshake', stream=list(stream), ks=list(ks)))
                    obs = sc.run_connect_one(case, first)
                    n += 1
                    cl = None
                    if obs['connections'] != len(first) + 1:
                        cl = 'not every address of the proxy was tried after the earlier ones failed'
                    elif obs['res'] != alone['res']:
                        cl = (f"the handshake with the proxy's next address ended as {obs['res']}, the same reply bytes on a "
                              f"connection of their own mean {alone['res']} (state carried over from the failed address)")
                    elif (obs['sent'], obs['requested'], obs['left']) != (alone['sent'], alone['requested'], alone['left']):
                        cl = ('the handshake with the next address sent / read other bytes than a handshake of its own does '
                              '(state carried over from the failed address)')
                    if cl:
                        out.append(Failure(case, obs, cl))
                        break
                if len(out) >= 2:
                    break
        ctx['notes'].append(f'_connect_one over a proxy name with 2-4 addresses, earlier addresses failing by EOF / refusal / garbage: {n} runs compared with the stand-alone handshake')
        ctx['exhaustive'].append(f'{getattr(self, "_exhaustive", 0)} cases: all 256 values of each decision byte, '
                                 'bound-address lengths 0..255, EOF at every offset, per protocol variant')
        return out


PROP = C17()
