"""C16 - SOCKS requests byte-exact (model/Socks.v, props/C16.v)."""
import ipaddress
from harness.core import Prop
from harness.props import socks_common as sc

HOSTS = ['1.2.3.4', '0.0.0.7', '255.255.255.255', '10.0.1.0', '1.0.0.0', '255.255.255.0', '0.0.0.0', '172.16.0.0', '::1', 'fe80::1%eth0', 'fe80::dead:beef%3', '2001:db8::ff00:42:8329', '::ffff:1.2.3.4', '::ffff:0:0', '::', '64:ff9b::1.2.3.4', 'a', 'example.com',
         # host names that merely look like numbers (lenient address parsers read them as IPv4: they are names)
         '0x7f.0x1', '0x7f000001', '10.0.0.0x1', '0x1.0x2.0x3.0x4', '0x10', '1.2.3.4a', '127.0.0.1.example', '0300.0250.1.0x1', '1.2.3.0b1',
         'WWW.Example.COM', 'foo1.Foo', 'EXPYUZZ.ONION', 'MiXeD-Case_.Host', 'A', 'a-b_c.example', 'x' * 63 + '.' + 'y' * 63 + '.' + 'z' * 63 + '.' + 'w' * 58 + '.de', 'localhost.']
ALPH = 'ab09 ._-é€\U0001F600\x01\x7f'


def grant_stream(case, rng):
    """a proxy that accepts everything (so that all messages get sent)"""
    if case['proto'] in ('4', '4a'):
        return bytes([0, 90] + [rng.randrange(256) for _ in range(6)])
    m = 2 if case.get('user') is not None and rng.random() < 0.7 else 0
    if case.get('user') is None and rng.random() < 0.15:
        m = 2          # a proxy selecting a method the client never offered
    s = bytes([5, m]) + (b'\x01\x00' if m == 2 else b'')
    return s + b'\x05\x00\x00\x01' + bytes(6)


class C16(Prop):
    id = 'C16'
    coq_header = sc.HEADER
    case_type = 'c16case'
    check_fn = 'socks_ok'
    sizes = {'quick': 4000, 'thorough': 60000}
    rule = ('destinations: IPv4 / IPv6 / host names up to 253 chars; ports 1,255,256,65535 and random; user names and '
            'passwords of 0..300 encoded bytes over ASCII, controls, NUL, 2/3/4-byte UTF-8; SOCKS4/4a/5; with and '
            'without credentials; both proxy method selections; non-trivial = the client was constructed and sent a '
            'request; distinct = distinct case')
    assumptions = ('user names / passwords are Unicode scalar values (no lone surrogates, note N2)',)

    def corpus(self):
        return [
            {'kind': 'handshake', 'proto': '4', 'host': '1.2.3.4', 'port': 80, 'user': 'a\x00b', 'pwd': '', 'stream': [0, 90, 0, 0, 0, 0, 0, 0], 'ks': []},
            {'kind': 'construct', 'proto': '5', 'host': '::1', 'port': 65535, 'user': 'u' * 256, 'pwd': 'p'},
            {'kind': 'construct', 'proto': '5', 'host': '::1', 'port': 65535, 'user': 'u' * 255, 'pwd': ''},
            {'kind': 'construct', 'proto': '4', 'host': 'example.com', 'port': 1, 'user': None, 'pwd': None},
            {'kind': 'construct', 'proto': '4a', 'host': '::1', 'port': 1, 'user': None, 'pwd': None},
        ]

    def _text(self, rng, nbytes_target):
        if nbytes_target == 0:
            return ''
        s = ''
        while len(s.encode()) < nbytes_target:
            s += rng.choice(ALPH)
        while len(s.encode()) > nbytes_target:
            s = s[:-1]
        while len(s.encode()) < nbytes_target:
            s += 'x'
        return s

    def generate(self, rng, n, tier):
        for i in range(n):
            proto = rng.choice(['4', '4a', '5', '5'])
            host = rng.choice(HOSTS)
            if rng.random() < 0.2:
                # a random valid host name: 1-4 labels, number-like ones among them, the last one not all digits
                labs = [rng.choice(['a', '0x1f', '10', 'x-1', '_srv', '0xff', 'z9', '0', '255', '0x0', 'ff', '1e3', '0o7', 'Ab', 'XN--P1AI', 'Q'])
                        for _ in range(rng.randrange(1, 5))]
                if labs[-1].isdigit():
                    labs[-1] = rng.choice(['0x1', 'com', '0xc0a80101', 'x1'])
                host = '.'.join(labs)
            port = rng.choice([1, 255, 256, 65535, rng.randrange(1, 65536)])
            if rng.random() < 0.65:
                ln = rng.choice([0, 1, 2, 5, 17, 254, 255, 256, 257, 300])
                user = self._text(rng, ln)
                if rng.random() < 0.08 and user:
                    k = rng.randrange(len(user))
                    user = user[:k] + '\x00' + user[k + 1:]
                pwd = self._text(rng, rng.choice([0, 1, 3, 100, 255, 256, 300]))
            else:
                user = pwd = None
            case = {'kind': 'handshake' if rng.random() < 0.8 else 'construct', 'proto': proto,
                    'host': host, 'port': port, 'user': user, 'pwd': pwd}
            if case['kind'] == 'handshake':
                case['stream'] = list(grant_stream(case, rng))
                case['ks'] = [rng.randrange(0, 4) for _ in range(rng.randrange(0, 5))]
            yield case

    def run_impl(self, case):
        if case.get('multi'):
            return self.multi_address_scenario(case)
        return sc.run_socks(case)

    def coq_case(self, case, obs):
        if case.get('multi'):
            return None
        return sc.coq_case(case, obs)

    def oracle(self, case, obs):
        if case.get('multi'):
            return self.multi_address_oracle(case, obs)
        try:
            ip = ipaddress.ip_address(case['host'])
        except ValueError:
            ip = None
        proto = case['proto']
        user = case['user'].encode() if case.get('user') is not None else None
        pwd = case['pwd'].encode() if case.get('user') is not None else None
        inexpressible = ((proto == '4' and (ip is None or ip.version != 4)) or
                         (proto == '4a' and ip is not None and ip.version == 6) or
                         (proto == '5' and user is not None and not (0 < len(user) < 256 and 0 < len(pwd) < 256)) or
                         (proto in ('4', '4a') and user is not None and b'\x00' in user))
        c = obs['construct']
        if c.startswith('other'):
            return 'constructor raised a non-SOCKS exception: ' + c
        if inexpressible:
            if c == 'ok':
                if proto in ('4', '4a') and user is not None and b'\x00' in user:
                    return 'SOCKS4 user id containing NUL accepted (request mis-framed)'
                return 'destination/credentials the protocol cannot express were accepted'
            return None if c == 'proto' else 'rejected with the wrong SOCKS error class'
        if c != 'ok':
            return 'an expressible destination/credential was rejected'
        if case['kind'] == 'construct':
            return None
        sent = [bytes(m) for m in obs['sent']]
        if proto in ('4', '4a'):
            if sent != sc.ref_request(case):
                return 'SOCKS4/4a request bytes differ from the protocol layout'
            return None
        greet, auth, conn = sc.ref_request(case)
        s = bytes(case['stream'])
        want = [greet] + ([auth] if s[1] == 2 else []) + [conn]
        if s[1] == 2 and user is None:
            # user/password was not offered: nothing but the greeting may be sent, and the handshake must fail
            if sent != [greet] or obs['res'] not in ('fail', 'proto'):
                return ('the proxy selected user/password although it was not offered: the client went on '
                        f"(sent {len(sent)} messages, outcome {obs['res']})")
            return None
        if sent != want:
            return 'SOCKS5 exchange differs from RFC 1928/1929 (greeting, credentials iff selected, CONNECT)'
        return None

    # ---- every proxy address tried gets a complete exchange of its own (SOCKSProxy._connect_one, real loopback sockets)
    @staticmethod
    def multi_address_scenario(case):
        import asyncio, socket, logging
        from aiorpcx import socks
        from aiorpcx.util import NetAddress
        logging.disable(logging.CRITICAL)

        async def main():
            loop = asyncio.get_event_loop()
            loop.set_exception_handler(lambda l, ctx: None)
            got = [bytearray(), bytearray()]

            async def serve(idx, reader, writer):
                try:
                    if case['proto'] == '5':
                        got[idx] += await reader.readexactly(3)              # greeting 05 01 00
                        if idx == 0 and case['first'] == 'refuse_method':
                            writer.write(b'\x05\xff')
                        else:
                            writer.write(b'\x05\x00')
                            got[idx] += await reader.readexactly(10)         # CONNECT to an IPv4 address
                            writer.write(b'\x05\x05\x00\x01' + bytes(6) if idx == 0 else b'\x05\x00\x00\x01' + bytes(6))
                    else:
                        got[idx] += await reader.readexactly(9)              # SOCKS4 request, empty user id
                        writer.write(b'\x00\x5b' + bytes(6) if idx == 0 else b'\x00\x5a' + bytes(6))
                    await writer.drain()
                    if idx == 0 and case['first'] == 'eof':
                        pass
                finally:
                    await asyncio.sleep(0.05)
                    writer.close()
            servers = [await asyncio.start_server(lambda r, w, i=i: serve(i, r, w), '127.0.0.1', 0) for i in range(2)]
            ports = [sv.sockets[0].getsockname()[1] for sv in servers]
            orig = loop.getaddrinfo

            async def fake_getaddrinfo(host, port, **kw):
                return [(socket.AF_INET, socket.SOCK_STREAM, 6, '', ('127.0.0.1', p)) for p in ports]
            loop.getaddrinfo = fake_getaddrinfo
            try:
                P = {'4': socks.SOCKS4, '5': socks.SOCKS5}[case['proto']]
                proxy = socks.SOCKSProxy(NetAddress('proxy.example', 1080), P, None)
                try:
                    res = await asyncio.wait_for(proxy._connect_one(NetAddress('1.2.3.4', 80)), 5)
                    out = 'socket' if isinstance(res, socket.socket) else type(res).__name__
                    if isinstance(res, socket.socket):
                        res.close()
                except asyncio.TimeoutError:
                    out = 'hang'
            finally:
                loop.getaddrinfo = orig
                for sv in servers:
                    sv.close()
            return {'out': out, 'first': list(got[0]), 'second': list(got[1])}
        return asyncio.run(main())

    @staticmethod
    def multi_address_oracle(case, obs):
        if obs['out'] != 'socket':
            return f"the second proxy address would have granted the request, but the connection attempt ended with {obs['out']}"
        if obs['second'][:len(obs['first'])] != obs['first'] or not obs['second']:
            return 'the exchange with the second proxy address does not start like the one with the first (greeting / request bytes missing)'
        return None

    def extra_checks(self, ctx):
        from harness.core import Failure
        out = []
        n = 0
        for proto in ('4', '5'):
            for first in ('refuse', 'refuse_method', 'eof'):
                if proto == '4' and first == 'refuse_method':
                    continue
                case = {'multi': True, 'proto': proto, 'first': first}
                obs = self.multi_address_scenario(case)
                n += 1
                ctx['extra_evals'] += 1
                cl = self.multi_address_oracle(case, obs)
                if cl:
                    out.append(Failure(case, obs, cl))
        ctx['notes'].append(f'proxy with two addresses, the first refusing: {n} real-socket scenarios')
        # credential objects other than a plain SOCKSUserAuth(user, password): SOCKSRandomAuth() (fresh random user name and
        # password on every read - Tor stream isolation) IS a credential
        import re
        from aiorpcx import socks
        from aiorpcx.util import NetAddress
        nr = 0
        for mk, label in ((lambda: socks.SOCKSRandomAuth(), 'SOCKSRandomAuth()'), (lambda: socks.SOCKSUserAuth('u', 'p'), "SOCKSUserAuth('u', 'p')")):
            for host in ('example.com', '1.2.3.4', '::1'):
                for selected in (2, 0):
                    auth = mk()
                    stream = bytes([5, selected]) + (b'\x01\x00' if selected == 2 else b'') + b'\x05\x00\x00\x01\x00\x00\x00\x00\x00\x00'
                    loop = sc.FakeLoop(stream, [])
                    client = socks.SOCKS5(NetAddress(host, 443), auth)
                    proxy = socks.SOCKSProxy(NetAddress('localhost', 1080), socks.SOCKS5, auth)
                    coro = proxy._handshake(client, None, loop)
                    try:
                        coro.send(None)
                        res = 'suspended'
                        coro.close()
                    except StopIteration:
                        res = 'done'
                    except Exception as e:
                        res = sc.classify_exc(e)
                    nr += 1
                    sent = loop.sent
                    ok = res == 'done' and len(sent) == (3 if selected == 2 else 2) and sent[0] == b'\x05\x02\x00\x02'
                    if ok and selected == 2:
                        if label == 'SOCKSRandomAuth()':
                            ok = re.fullmatch(rb'\x01\x40[0-9a-f]{64}\x40[0-9a-f]{64}', sent[1], re.DOTALL) is not None
                        else:
                            ok = sent[1] == b'\x01\x01u\x01p'
                    if not ok:
                        out.append(Failure({'kind': 'credential_object', 'auth': label, 'host': host, 'method_selected_by_proxy': selected},
                                           {'res': res, 'sent': [list(m) for m in sent]},
                                           f'SOCKS5 with {label}: the greeting must offer user name/password (05 02 00 02), the RFC 1929 message must follow '
                                           f'iff the proxy selects method 2, then the CONNECT; outcome {res}'))
                        break
        ctx['extra_evals'] += nr
        ctx['notes'].append(f'SOCKS5 with SOCKSRandomAuth() / SOCKSUserAuth, proxy selecting either method: {nr} exchanges')
        return out[:3]

    def classify(self, case, obs, clause):
        if 'user id containing NUL' in clause:
            return 'F16'
        return None

    def nontrivial(self, case, obs):
        if case.get('multi'):
            return True
        return obs.get('construct') == 'ok' and bool(obs.get('sent'))

    def histogram(self, case, obs):
        if case.get('multi'):
            return ['multi_address']
        return ['proto=' + case['proto'], 'construct=' + obs['construct'],
                'auth' if case.get('user') is not None else 'noauth', 'res=' + str(obs.get('res'))]


PROP = C16()
