"""C12 - external cancellation passes through timeouts unchanged."""
from harness.core import Prop
from harness.props import timeouts_common as tc


def mutate_f10(rng):
    """programs around the model's F10 witness: an inner block that expires and is handled, then a wait"""
    inner_kind = rng.choice(['timeout', 'ignore'])
    t_in = 2 * rng.choice([0, 1, 2, 3])
    ab_in = rng.random() < 0.25
    inner = ['block', inner_kind, ab_in, t_in, ['await', 2 * rng.choice([5, 7, 9])], rng.choice(['cm', 'coro'])]
    handled = inner if inner_kind == 'ignore' else ['try', inner, ['TaskTimeout'], ['skip']]
    body = ['seq', handled, ['await', 2 * rng.choice([9, 11, 13])]]
    for _ in range(rng.randrange(0, 3)):
        body = ['block', rng.choice(['timeout', 'ignore']), False, 2 * rng.choice([30, 40, 50]), body, rng.choice(['cm', 'coro'])]
        if rng.random() < 0.3:
            body = ['seq', ['await', 2], body]
    return body


def site_scenario(case):
    """The library's own timeout blocks and joins (session.py / the transports: a request waiting for its response, a
    batch, a send blocked behind a full buffer, a graceful close that does not complete) with the calling task cancelled
    from outside at a chosen instant - alone, inside the caller's own timeout blocks, after an earlier inner timeout that
    was handled, or as a member of a task group whose join is cancelled: the task ends cancelled."""
    import asyncio
    from harness import sessions
    from aiorpcx import session, curio
    loop = sessions.new_loop()
    try:
        class S(session.RPCSession):
            if case.get('form') == 'queued_then_zero':
                initial_concurrent = 1

            async def handle_request(self, request):
                await asyncio.sleep(1000)
        proto, ft, s = sessions.attach(S, kind='server' if case['site'] == 'handler' else 'client', transport=case['transport'],
                                       hwm=5 if case['site'] in ('send_blocked', 'send_request_blocked') else None)
        if case['site'] == 'close_waiting':
            def close():
                ft.closing = True            # a graceful close that does not complete (unsent data, silent peer)
                ft.log.append(('close',))
            ft.close = close

        async def call():
            site = case['site']
            if site == 'send_request':
                return await s.send_request('m', [1])
            if site == 'send_batch':
                async with s.send_batch() as b:
                    b.add_request('m', [1])
                    b.add_request('m', [2])
                return b.results
            if site == 'send_request_blocked':
                await s.send_notification('n', ['x' * 50])      # fills the buffer: the transport pauses writing
                return await s.send_request('m', [1])           # ... the request waits to be WRITTEN
            if site == 'send_blocked':
                await s.send_notification('n', ['x' * 50])      # fills the buffer: the transport pauses writing
                return await s.send_notification('n', [2])      # ... this one waits for room
            if site == 'close_waiting':
                return await s.close(force_after=case.get('force_after', 30))
            raise ValueError(site)

        async def wrapped():
            w = case['wrap']
            if w == 'handled_inner':
                async with curio.ignore_after(0.01):
                    await asyncio.sleep(1)
                try:
                    async with curio.timeout_after(0.01):
                        await asyncio.sleep(1)
                except curio.TaskTimeout:
                    pass
                async with curio.timeout_after(500):
                    return await call()
            if w == 'outer':
                async with curio.timeout_after(500):
                    async with curio.ignore_after(400):
                        return await call()
            return await call()
        info = {}

        async def main():
            if case['site'] == 'handler':
                # the library's own request-handling task (inside timeout_after(processing_timeout) and the slot limiter)
                await sessions.settle(3)
                form = case.get('form', 'request')
                if form == 'queued_then_zero':
                    # one slot, held by a first request; a second request is QUEUED for a slot (inside the library's
                    # timeout_after(processing_timeout)); then the session's cost passes the hard limit - the limiter's target is
                    # zero - and only then the queued handler task is cancelled from outside
                    proto.data_received(b'{"jsonrpc":"2.0","method":"m","params":[],"id":1}\n')
                    await sessions.settle(6)
                    proto.data_received(b'{"jsonrpc":"2.0","method":"m","params":[],"id":2}\n')
                    await sessions.settle(6)
                    hts = [x for x in asyncio.all_tasks(loop) if '_throttled_request' in getattr(x.get_coro(), '__qualname__', '')]
                    if len(hts) != 2:
                        return {'delivered': False, 'task': None, 'member': None, 'hung': False, 'note': 'handler tasks not found'}
                    # the later of the two tasks is the queued one (asyncio numbers its tasks)
                    t = max(hts, key=lambda x: int(x.get_name().rsplit('-', 1)[-1]) if x.get_name().rsplit('-', 1)[-1].isdigit() else 0)
                    await asyncio.sleep(case['cancel_at'] / 2)
                    s.cost = s.cost_hard_limit + 1000
                    s.recalc_concurrency()
                    await asyncio.sleep(case['cancel_at'] / 2)
                    delivered = not t.done()
                    n0 = len(ft.written)
                    t.cancel()
                    await sessions.settle(10)
                    await asyncio.sleep(0.5)
                    return {'delivered': delivered, 'task': 'still running' if not t.done() else 'cancelled' if t.cancelled() else
                            ('normal' if t.exception() is None else type(t.exception()).__name__), 'member': None, 'hung': not t.done(),
                            'limiter_target': s._incoming_concurrency.max_concurrent,
                            'went_on_after_cancel': [x for x in (('wrote a message' if len(ft.written) > n0 else None),
                                                                  ('closed the connection' if ft.closing or ft.lost else None)) if x]}
                proto.data_received({'request': b'{"jsonrpc":"2.0","method":"m","params":[],"id":1}\n',
                                     'notification': b'{"jsonrpc":"2.0","method":"m","params":[]}\n',
                                     'batch_notification': b'[{"jsonrpc":"2.0","method":"m","params":[]}]\n',
                                     'batch_request': b'[{"jsonrpc":"2.0","method":"m","params":[],"id":1}]\n'}[form])
                await sessions.settle(6)
                hts = [x for x in asyncio.all_tasks(loop) if '_throttled_request' in getattr(x.get_coro(), '__qualname__', '')]
                if len(hts) != 1:
                    return {'delivered': False, 'task': None, 'member': None, 'hung': False, 'note': 'handler task not found'}
                t = hts[0]
                await asyncio.sleep(case['cancel_at'] / 2)
                if case.get('lower'):
                    s._incoming_concurrency.set_target(max(1, s._incoming_concurrency.max_concurrent - 5))
                await asyncio.sleep(case['cancel_at'] / 2)
                delivered = not t.done()
                t.cancel()
                await sessions.settle(10)
                await asyncio.sleep(0.5)
                return {'delivered': delivered, 'task': 'still running' if not t.done() else 'cancelled' if t.cancelled() else
                        ('normal' if t.exception() is None else type(t.exception()).__name__), 'member': None, 'hung': not t.done()}
            if case['site'] == 'message_task':
                # the connection's own message-processing task (it sits in the join of the session's task group), cancelled from
                # outside while the connection is open, or closing but not yet closed (close() called, the peer silent)
                await sessions.settle(3)
                if case.get('closing'):
                    def close():
                        ft.closing = True
                        ft.log.append(('close',))
                    ft.close = close
                    ft.close()
                if case.get('busy'):
                    proto.data_received(b'{"jsonrpc":"2.0","method":"m","params":[],"id":1}\n')
                await asyncio.sleep(case['cancel_at'])
                t = proto._process_messages_task
                delivered = not t.done()
                t.cancel()
                await sessions.settle(10)
                await asyncio.sleep(0.5)
                return {'delivered': delivered, 'task': 'still running' if not t.done() else 'cancelled' if t.cancelled() else
                        ('normal' if t.exception() is None else type(t.exception()).__name__), 'member': None, 'hung': not t.done()}
            if case['as_member']:
                async def joiner():
                    async with curio.TaskGroup() as g:
                        info['member'] = await g.spawn(wrapped())
                t = loop.create_task(joiner())
            else:
                t = loop.create_task(wrapped())
            await asyncio.sleep(case['cancel_at'] / 2)
            if case.get('lower'):
                # the limit is lowered while the task is inside the limiter's block: its slot will be retired on exit
                for lim in (s._outgoing_concurrency, s._incoming_concurrency):
                    lim.set_target(max(1, lim.max_concurrent - 5))
            await asyncio.sleep(case['cancel_at'] / 2)
            delivered = not t.done()
            t.cancel()
            try:
                await asyncio.wait_for(asyncio.shield(asyncio.gather(t, return_exceptions=True)), 200)
                hung = False
            except asyncio.TimeoutError:
                hung = True

            def how(x):
                if x is None:
                    return None
                if not x.done():
                    return 'still running'
                if x.cancelled():
                    return 'cancelled'
                return 'normal' if x.exception() is None else type(x.exception()).__name__
            return {'delivered': delivered, 'task': how(t), 'member': how(info.get('member')), 'hung': hung}
        return loop.run_until_complete(main())
    finally:
        sessions.close_loop(loop)


def site_oracle(case, obs):
    if not obs['delivered']:
        return None
    if obs.get('went_on_after_cancel'):
        return (f"the task was cancelled from outside while in the library's {case['site']} ({case.get('form')}) and went on: it "
                f"{' and '.join(obs['went_on_after_cancel'])} afterwards (the CancelledError was replaced or swallowed on the way)")
    if obs['task'] != 'cancelled':
        return (f"the task was cancelled from outside while in the library's {case['site']} ({case['wrap']} nesting{', limit lowered meanwhile' if case.get('lower') else ''}"
                f"{', as the joining task of a group' if case['as_member'] else ''}) and ended {obs['task']} instead of cancelled")
    if case['as_member'] and obs['member'] != 'cancelled':
        return f"the group member in the library's {case['site']} ended {obs['member']} instead of cancelled when its group's join was cancelled"
    return None


class C12(Prop):
    id = 'C12'
    coq_header = tc.HEADER
    case_type = tc.CASE_TYPE
    check_fn = 'c11_ok'
    sizes = {'quick': 1500, 'thorough': 25000}
    shard = 150
    rule = ('half: programs derived from the model witness (an inner timeout/ignore block that expires and is handled, '
            'inside 0-2 enclosing blocks, then a wait) with the external cancel at every odd instant; half: random programs '
            '(depth <= 4, try-except possibly catching cancellation classes) with an external cancel; same observations as '
            'C11; non-trivial = the cancel was delivered while a block was active and an inner block had expired earlier')
    trusted = ('harness/vloop.py',)
    assumptions = ('the external cancel never coincides with a deadline (odd vs even instants)',
                   'task-group joins inside the blocks: the group part is the TaskGroup LTS (C12_group_join_stays_cancelled) '
                   'and an oracle over real programs; the composition of a group inside timeout blocks is not one model')

    def corpus(self):
        f10 = ['block', 'timeout', False, 40, ['seq', ['try', ['block', 'timeout', False, 2, ['await', 8], 'cm'],
                                                        ['TaskTimeout'], ['skip']], ['await', 20]], 'cm']
        f10i = ['block', 'timeout', False, 40, ['seq', ['block', 'ignore', False, 2, ['await', 8], 'cm'], ['await', 20]], 'cm']
        return [{'prog': f10, 'ext': 11}, {'prog': f10i, 'ext': 11}, {'prog': f10, 'ext': 1}]

    def generate(self, rng, n, tier):
        for i in range(n):
            if i % 2 == 0:
                p = mutate_f10(rng)
                ext = 2 * rng.randrange(0, 30) + 1
            else:
                p = tc.gen_prog(rng, 4, {'catch_cancel': rng.random() < 0.2})
                ext = 2 * rng.randrange(0, 40) + 1
            yield {'prog': p, 'ext': ext}

    def run_impl(self, case):
        if case.get('tg'):
            from harness.props import tg_common
            return tg_common.run_case(case)
        return tc.run_program(case)

    def coq_case(self, case, obs):
        if case.get('tg'):
            return None
        return tc.coq_case(case, obs)

    @staticmethod
    def group_oracle(case, obs):
        """a task cancelled from outside while it joins a TaskGroup (inside nested timeout blocks) ends cancelled"""
        je = obs['join_end']
        if je is None:
            # the joining task was cancelled inside the join and never ended: is it waiting for a member nobody cancelled?
            fin = obs.get('final') or {}
            if any(l[0] == 'cancelJ' for l, _ in obs['trace']) and fin.get('quiescent') and (fin.get('entered') or fin.get('exiting')) \
                    and not fin.get('jdone') and fin.get('live_not_requested'):
                return (f"a join cancelled from outside never ends: it waits for members {fin['live_not_requested']} "
                        'that were never sent a cancellation (clean-up skipped for them)')
            return None
        if obs.get('refused_during_join'):
            return ('while a join cancelled from outside was still cancelling and awaiting its members, a member\'s follow-up task was '
                    f'refused ("task group terminated") and left outside the group (refused: {obs["refused_during_join"]}): the clean-up '
                    'a join promises covers members added during it')
        cancelled_at = next((i for i, (l, sn) in enumerate(obs['trace']) if l[0] == 'cancelJ'), None)
        if cancelled_at is not None and cancelled_at < je['at'] and not je['joiner_cancelled']:
            return ('a task cancelled from outside while joining a task group did not end cancelled '
                    f"(ended with {je['joiner_exc'] or 'a normal return'})")
        # the clean-up a join promises still takes place: members are cancelled and awaited
        if cancelled_at is not None and cancelled_at < je['at'] and je['joiner_cancelled'] and (je['entered'] or je.get('exiting')):
            snap = obs['trace'][je['at'] - 1][1] or {}
            forgotten = [t for t in je['undone'] if t not in snap.get('cancelreq', [])]
            if forgotten and je['joined']:
                return (f'a join cancelled from outside completed (joined is set) while members {forgotten} of the group were '
                        'still running without even a cancellation request (clean-up skipped)')
            if je['undone'] and not je['joined']:
                return ('the joining task was cancelled while join waited for cancelled members: '
                        'it ended with members still running')
        return None

    def classify(self, case, obs, clause):
        if case.get('tg') and 'joining task was cancelled while' in clause:
            return 'F12'
        return None

    def extra_checks(self, ctx):
        from harness.props import tg_common
        from harness.core import Failure
        rng = ctx['rng']
        out = []
        n = 400 if ctx['tier'] == 'quick' else 6000
        hit = 0
        # directed: the cancellation lands in the join's wait with every member running; a member adds a task
        # (a daemon, a regular one) to the group while it is being cancelled
        directed = [{'policy': pol, 'mode': mode, 'retain': False, 'init': [], 'tg': True, 'wrap': wrap,
                     'members': [{'react': r1, 'daemon': False}, {'react': 'reraise', 'daemon': d2}],
                     'actions': [['start']] + [['tick']] * 8 + [['cancelJ']] + [['tick']] * 24}
                    for pol in ('all', 'any', 'object') for mode in ('join', 'aexit') for r1 in ('spawnd', 'spawn', 'slow', 'veteran')
                    for d2 in (False, True) for wrap in ([], ['timeout'])]
        # directed: the cancellation lands in the window between a member's completion and the joining task's next
        # step - before / after the member's done-callback has queued it and released the semaphore
        directed += [{'policy': pol, 'mode': mode, 'retain': False, 'init': [], 'tg': True, 'wrap': wrap,
                      'members': [{'react': 'reraise', 'daemon': False}] * nm,
                      'actions': [['start']] + [['tick']] * 8 + [x for i in range(nm - 1) for x in (['finish', 0, ['ret', 1]], ['tick'], ['tick'], ['tick'])]
                                 + [['finish', 0, ['ret', 1]]] + [['tick']] * w + [['cancelJ']] + [['tick']] * 24}
                     for pol in ('all', 'any', 'object') for mode in ('join', 'aexit') for nm in (1, 2)
                     for w in (0, 1, 2, 3) for wrap in ([], ['ignore'])]
        # directed: the cancellation lands in the BODY of `async with group`, members running: the exit still cancels and awaits them
        directed += [{'policy': pol, 'mode': 'aexit_body', 'retain': False, 'init': [], 'tg': True, 'wrap': wrap,
                      'members': [{'react': r1, 'daemon': False}, {'react': 'reraise', 'daemon': d2}],
                      'actions': [['start']] + [['tick']] * 6 + [['cancelJ']] + [['tick']] * 30}
                     for pol in ('all', 'any', 'object', 'none') for r1 in ('reraise', 'spawn', 'veteran')
                     for d2 in (False, True) for wrap in ([], ['timeout'])]
        for k in range(n + len(directed)):
            if k < len(directed):
                case = directed[k]
                obs = tg_common.run_case(case)
                cl = self.group_oracle(case, obs)
                if cl:
                    out.append(Failure(case, obs, cl))
                continue
            # half of the programs: members that add tasks (daemons too) to the group while they are being cancelled
            case = tg_common.gen_case(rng, {'reacts': ['spawnd', 'spawnd', 'spawn', 'reraise', 'slow']} if rng.random() < 0.5 else None)
            case['tg'] = True
            case['wrap'] = [rng.choice(['timeout', 'ignore']) for _ in range(rng.randrange(0, 3))]
            if rng.random() < 0.12:
                case['mode'] = 'aexit_body'
            if not any(a[0] == 'cancelJ' for a in case['actions']):
                case['actions'].insert(rng.randrange(2, len(case['actions'])), ['cancelJ'])
            if rng.random() < 0.4:
                # the cancellation lands while join is waiting in its loop, with every member still running
                case['actions'] = [['start']] + [['tick']] * 8 + [['cancelJ']] + [['tick']] * 14 + case['actions']
            obs = tg_common.run_case(case)
            cl = self.group_oracle(case, obs)
            if obs['join_end'] and obs['join_end']['joiner_cancelled']:
                hit += 1
            if cl:
                out.append(Failure(case, obs, cl))
                if sum(1 for f in out if not self.classify(f.case, f.observed, f.clause)) >= 3:
                    break
        ctx['notes'].append(f'group joins inside timeout blocks: {n} programs on the real TaskGroup, {hit} with the joining task '
                            'ending cancelled after an external cancel')
        # the library's own uses of the constructs (session.py, transports)
        ns = 0
        for site in ('send_request', 'send_batch', 'send_blocked', 'send_request_blocked', 'close_waiting', 'handler'):
            for wrap in ('none', 'outer', 'handled_inner') if site != 'handler' else ('none', 'lowered'):
                for as_member in (False, True) if site != 'handler' else (False,):
                    for cancel_at in (0.05, 1.0, 7.5):
                        for tr in (('rs', 'us') if ctx['tier'] != 'quick' or wrap == 'none' else ('rs',)):
                            case = {'site_scenario': True, 'site': site, 'wrap': wrap, 'as_member': as_member, 'cancel_at': cancel_at, 'transport': tr,
                                    'lower': wrap == 'lowered' or (site in ('send_request', 'send_batch') and cancel_at == 1.0)}
                            obs = site_scenario(case)
                            ns += 1
                            cl = site_oracle(case, obs)
                            if cl and sum(1 for f in out if f.case.get('site_scenario')) < 2:
                                out.append(Failure(case, obs, cl))
        for tr in ('rs', 'us'):
            for cancel_at in (0.05, 1.0):
                for form in ('notification', 'batch_notification', 'batch_request', 'queued_then_zero'):
                    for lower in (False, True):
                        case = {'site_scenario': True, 'site': 'handler', 'wrap': 'lowered' if lower else 'none', 'as_member': False, 'cancel_at': cancel_at,
                                'transport': tr, 'lower': lower, 'form': form}
                        obs = site_scenario(case)
                        ns += 1
                        cl = site_oracle(case, obs)
                        if cl and sum(1 for f in out if f.case.get('site_scenario')) < 3:
                            out.append(Failure(case, obs, cl + f' (the handler was processing a {form})'))
                for closing in (False, True):
                    for busy in (False, True):
                        case = {'site_scenario': True, 'site': 'message_task', 'wrap': 'none', 'as_member': False, 'cancel_at': cancel_at, 'transport': tr,
                                'closing': closing, 'busy': busy}
                        obs = site_scenario(case)
                        ns += 1
                        cl = site_oracle(case, obs)
                        if cl and sum(1 for f in out if f.case.get('site_scenario')) < 3:
                            out.append(Failure(case, obs, cl + (' (the connection was closing but not yet closed)' if closing else '')))
        ctx['extra_evals'] += ns
        ctx['notes'].append(f'external cancellation landing in the library\'s own timeout blocks (request / batch awaiting its response, '
                            f'send blocked behind a full buffer, graceful close that does not complete): {ns} scenarios')
        return out

    def oracle(self, case, obs):
        if case.get('tg'):
            return self.group_oracle(case, obs)
        if obs['tie']:
            return None
        if obs['left']:
            return 'a timeout timer is still armed after the task ended (clean-up skipped)'
        if obs['cancel_delivered'] and not tc.catches_cancel(case['prog']) and obs['out'] != 'ok':
            if obs['out'] != 'CancelledError':
                return f"externally cancelled task ended with {obs['out']} instead of CancelledError"
        if obs['cancel_delivered'] and not tc.catches_cancel(case['prog']) and obs['out'] == 'ok' and obs['tail'] == 'tail-ok':
            return 'external cancellation was swallowed'
        return None

    def nontrivial(self, case, obs):
        if case.get('tg'):
            return True
        return obs['cancel_delivered'] and any(x[1] for x in obs['log'])

    def histogram(self, case, obs):
        if case.get('tg'):
            return ['group_join']
        return ['out=' + obs['out'], 'delivered' if obs['cancel_delivered'] else 'undelivered',
                'tie' if obs['tie'] else 'notie', 'catches_cancel' if tc.catches_cancel(case['prog']) else 'nocatch']


PROP = C12()
