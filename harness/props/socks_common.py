"""Drivers shared by C16 and C17: the real SOCKS clients behind a fake socket."""
import struct, ipaddress
from harness.core import c_N, c_bytes, c_list, c_nat


class FakeLoop:
    """sock_recv returns at most ks[i] bytes on the i-th call (0 = as many as asked)"""

    def __init__(self, stream, ks):
        self.stream = bytes(stream)
        self.ks = list(ks)
        self.sent = []
        self.requested = []

    async def sock_sendall(self, sock, data):
        self.sent.append(bytes(data))

    async def sock_recv(self, sock, n):
        if len(self.requested) > 20000:
            raise RuntimeError('the client keeps calling sock_recv (more than 20000 calls): runaway loop')
        self.requested.append(n)
        k = self.ks.pop(0) if self.ks else 0
        if k == 0 or k > n:
            k = n
        data, self.stream = self.stream[:k], self.stream[k:]
        return data


def make_client(case):
    from aiorpcx import socks
    from aiorpcx.util import NetAddress
    proto = {'4': socks.SOCKS4, '4a': socks.SOCKS4a, '5': socks.SOCKS5}[case['proto']]
    auth = socks.SOCKSUserAuth(case['user'], case['pwd']) if case.get('user') is not None else None
    addr = NetAddress(case['host'], case['port'])
    return proto, auth, addr


def classify_exc(e):
    from aiorpcx import socks
    if isinstance(e, socks.SOCKSProtocolError):
        return 'proto'
    if isinstance(e, socks.SOCKSFailure):
        return 'fail'
    return 'other:' + type(e).__name__


def run_socks(case):
    from aiorpcx import socks
    from aiorpcx.util import NetAddress
    proto, auth, addr = make_client(case)
    try:
        client = proto(addr, auth)
    except Exception as e:
        return {'construct': classify_exc(e)}
    if case['kind'] == 'construct':
        return {'construct': 'ok'}
    loop = FakeLoop(case['stream'], case['ks'])
    proxy = socks.SOCKSProxy(NetAddress('localhost', 1080), proto, auth)
    coro = proxy._handshake(client, None, loop)
    try:
        coro.send(None)
        res = 'other:suspended'
        coro.close()
    except StopIteration:
        res = 'done'
    except Exception as e:
        res = classify_exc(e)
    return {'construct': 'ok', 'res': res, 'sent': [list(m) for m in loop.sent],
            'left': list(loop.stream), 'requested': loop.requested}


def dest_term(host):
    try:
        ip = ipaddress.ip_address(host)
        return ('DV4 ' if ip.version == 4 else 'DV6 ') + c_bytes(ip.packed)
    except ValueError:
        return 'DHost ' + c_bytes(host.encode())


def cfg_term(case):
    p = {'4': 'P4', '4a': 'P4a', '5': 'P5'}[case['proto']]
    if case.get('user') is not None:
        a = f"(Some {{| a_user := {c_bytes(case['user'].encode())}; a_pass := {c_bytes(case['pwd'].encode())} |}})"
    else:
        a = 'None'
    return f"{{| c_proto := {p}; c_dest := {dest_term(case['host'])}; c_port := {c_N(case['port'])}; c_auth := {a} |}}"


def coq_case(case, obs):
    cfg = cfg_term(case)
    if case['kind'] == 'construct' or obs['construct'] != 'ok':
        o = {'ok': 'None', 'proto': '(Some ProtoErr)', 'fail': '(Some Failure)'}.get(obs['construct'])
        if o is None:
            return None
        return f'CConstruct {cfg} {o}'
    res = {'done': 'Done', 'proto': '(Raised ProtoErr)', 'fail': '(Raised Failure)'}.get(obs['res'])
    if res is None:
        return None
    ks = c_list([c_nat(k) for k in case['ks']], 'nat')
    sent = c_list([c_bytes(bytes(m)) for m in obs['sent']], 'bytes')
    return f"CHandshake {cfg} {c_bytes(bytes(case['stream']))} {ks} {res} {sent} {c_bytes(bytes(obs['left']))}"


HEADER = 'From AV Require Import Base Gen_socks Socks.'


# ---- independent reference (RFC reading), Python side ----
def ref_request(case):
    """the CONNECT exchange the protocol prescribes, written from the RFCs"""
    host, port = case['host'], case['port']
    try:
        ip = ipaddress.ip_address(host)
    except ValueError:
        ip = None
    user = case['user'].encode() if case.get('user') is not None else None
    if case['proto'] in ('4', '4a'):
        uid = user or b''
        if ip is not None:
            return [b'\x04\x01' + struct.pack('>H', port) + ip.packed + uid + b'\x00']
        return [b'\x04\x01' + struct.pack('>H', port) + b'\x00\x00\x00\x01' + uid + b'\x00' + host.encode() + b'\x00']
    greet = b'\x05\x02\x00\x02' if user is not None else b'\x05\x01\x00'
    pwd = case['pwd'].encode() if user is not None else b''
    auth = b'\x01' + bytes([len(user)]) + user + bytes([len(pwd)]) + pwd if user is not None else None
    if ip is None:
        h = host.encode()
        dst = b'\x03' + bytes([len(h)]) + h
    elif ip.version == 4:
        dst = b'\x01' + ip.packed
    else:
        dst = b'\x04' + ip.packed
    conn = b'\x05\x01\x00' + dst + struct.pack('>H', port)
    return greet, auth, conn


def ref_reply(case):
    """expected outcome class and leftover for the reply stream: ('done', rest) | ('fail',) | ('proto',)"""
    s = bytes(case['stream'])
    if case['proto'] in ('4', '4a'):
        if len(s) < 8:
            return ('proto',)
        if s[0] != 0:
            return ('proto',)
        return ('done', s[8:]) if s[1] == 90 else ('fail',)
    offered = (0, 2) if case.get('user') is not None else (0,)
    if len(s) < 2 or s[0] != 5:
        return ('proto',)
    if s[1] not in offered:
        return ('fail',)
    s2 = s[2:]
    if s[1] == 2:
        if len(s2) < 2 or s2[0] != 1:
            return ('proto',)
        if s2[1] != 0:
            return ('fail',)
        s2 = s2[2:]
    if len(s2) < 5 or s2[0] != 5 or s2[2] != 0 or s2[3] not in (1, 3, 4):
        return ('proto',)
    if s2[1] != 0:
        return ('fail',)
    alen = {1: 4, 4: 16}.get(s2[3]) or 1 + s2[4]
    total = 4 + alen + 2
    if len(s2) < total:
        return ('proto',)
    return ('done', s2[total:])


def run_connect_one(case, first_streams):
    """SOCKSProxy._connect_one against a proxy host that resolves to several addresses: the handshakes with the first
    addresses see `first_streams` (each fails somehow), the last one sees case['stream'].  Sockets, name resolution and the
    event loop are fakes; the library code is real.  Returns what the LAST handshake sent / asked for / left and the outcome."""
    import types, socket as real_socket
    from aiorpcx import socks
    from aiorpcx.util import NetAddress
    proto, auth, addr = make_client(case)
    streams = [bytes(s) for s in first_streams] + [bytes(case['stream'])]
    conns = []

    class FakeSock:
        def __init__(self, family=None, *a, **k):
            self.idx = None

        def setblocking(self, flag):
            pass

        def getpeername(self):
            return ('10.0.0.%d' % (self.idx + 1), 1080)

        def close(self):
            pass

    class Loop:
        async def getaddrinfo(self, host, port, **kw):
            return [(real_socket.AF_INET, real_socket.SOCK_STREAM, 6, '', ('10.0.0.%d' % (i + 1), port)) for i in range(len(streams))]

        async def sock_connect(self, sock, address):
            sock.idx = len(conns)
            conns.append(FakeLoop(streams[sock.idx], case['ks'] if sock.idx == len(streams) - 1 else []))

        async def sock_sendall(self, sock, data):
            await conns[sock.idx].sock_sendall(sock, data)

        async def sock_recv(self, sock, n):
            return await conns[sock.idx].sock_recv(sock, n)

    saved = socks.socket, socks.asyncio
    socks.socket = types.SimpleNamespace(socket=FakeSock, SOCK_STREAM=real_socket.SOCK_STREAM)
    socks.asyncio = types.SimpleNamespace(get_event_loop=lambda: Loop())
    try:
        proxy = socks.SOCKSProxy(NetAddress('proxy.example', 1080), proto, auth)
        coro = proxy._connect_one(addr)
        try:
            coro.send(None)
            res = 'other:suspended'
            coro.close()
        except StopIteration as e:
            r = e.value
            res = 'done' if isinstance(r, FakeSock) else classify_exc(r) if isinstance(r, Exception) else 'other:' + repr(r)
        except Exception as e:
            res = 'other:escaped:' + type(e).__name__
    finally:
        socks.socket, socks.asyncio = saved
    last = conns[-1] if len(conns) == len(streams) else None
    return {'res': res, 'connections': len(conns),
            'sent': [list(m) for m in last.sent] if last else None, 'left': list(last.stream) if last else None,
            'requested': last.requested if last else None}
