"""C15 - back-pressure: blocked sends wait, go out whole once; a stalled peer is aborted (model/WriteGate.v)."""
import asyncio
from harness.core import Prop, c_N, c_list, c_bool
from harness import sessions


def run_scenario(case):
    from aiorpcx import session, curio
    loop = sessions.new_loop()
    try:
        proto, ft, s = sessions.attach(session.RPCSession, kind=case.get('kind', 'server'), transport=case['transport'], hwm=case['hwm'])
        blind, wire, fragments = [], [], []
        orig = ft.write
        import re
        whole = re.compile(rb'(\d+):x*\n\Z')

        def write(data):
            m = whole.match(bytes(data))
            if m is None and bytes(data).startswith(b'{') and bytes(data).endswith(b'\n') and b'"error"' in bytes(data):
                # the session's own reply to the peer's malformed message (sent inline by the reading loop): writer 99
                bad['size'] = len(data)
                wire.append(99)
                if ft.paused:
                    blind.append(99)
                orig(data)
                return
            if m is None:
                # not one whole framed message: a piece of one (another writer can get in between the pieces)
                fragments.append(len(data))
                if ft.paused:
                    blind.append(-1)
                orig(data)
                return
            wid = int(m.group(1))
            wire.append(wid)
            if ft.paused:
                blind.append(wid)
            orig(data)
        ft.write = write
        outcome = {}
        tasks = []
        bad = {'delivered': [], 'size': 1}
        hung = []

        def feed_bad():
            # the peer's bytes hold a malformed message: the reading loop itself answers it (it is then a writer too).
            # Delivered only while the transport is reading, and once per scenario (the loop may stay blocked)
            ok = ft.reading and not ft.lost and not ft.closing and True not in bad['delivered']
            bad['delivered'].append(ok)
            if ok:
                proto.data_received(b'{"bad json\n')

        times = {}

        async def sender(w, size):
            times[w] = [loop.time(), None]
            try:
                try:
                    await s._send_message(b'%d:' % w + b'x' * size)
                finally:
                    times[w][1] = loop.time()
                outcome[w] = 'done'
            except curio.TaskTimeout:
                outcome[w] = 'timeout'
            except asyncio.CancelledError:
                outcome[w] = 'cancelled'
                raise
            except Exception as e:
                outcome[w] = 'other:' + type(e).__name__

        sent_ids = []

        async def main():
            await sessions.settle(3)          # the session's reading loop is waiting for bytes
            for ev in case['events']:
                k = ev[0]
                if k in ('send', 'sendbad'):
                    sent_ids.append(ev[1])
                if k == 'send':
                    tasks.append(loop.create_task(sender(ev[1], ev[2])))
                    await sessions.settle(3)          # the task runs up to its first suspension
                elif k == 'bad':
                    feed_bad()
                    await sessions.settle(5)
                elif k == 'sendbad':
                    # a sender already scheduled when the bytes arrive: it writes first
                    tasks.append(loop.create_task(sender(ev[1], ev[2])))
                    feed_bad()
                    await sessions.settle(5)
                elif k == 'tick':
                    await sessions.settle(8)
                elif k == 'drain':
                    ft.drain()
                elif k == 'lost':
                    if not ft.lost:
                        ft.closing = True
                        ft._lost()
                        await sessions.settle(12)
                        # writers blocked when the connection is lost are released: every sender, and the session's
                        # reading loop if it was sending, has finished by now
                        for w, t_ in zip(sent_ids, tasks):
                            if not t_.done():
                                hung.append(w)
                        if not proto._process_messages_task.done():
                            hung.append(99)
                elif k == 'advance':
                    await asyncio.sleep(ev[1])
            await sessions.settle(10)
            # what went out, as a byte stream: it must be a sequence of whole messages
            stream = b''.join(bytes(x[1]) for x in ft.log if x[0] == 'write')
            stream = re.sub(rb'\{[^\n]*"error"[^\n]*\}\n', b'', stream)      # the session's own reply to the malformed message
            frames = re.findall(rb'(\d+):x*\n', stream)
            garbled = b''.join(re.split(rb'\d+:x*\n', stream)) != b''
            if fragments and not garbled:
                wire[:] = [int(f) for f in frames]
            pt = proto._process_messages_task
            if pt.done() and not pt.cancelled() and isinstance(pt.exception(), curio.TaskTimeout):
                outcome[99] = 'timeout'         # the reading loop's own send ran into max_send_delay
            return {'garbled': garbled, 'wire': wire, 'blind': blind, 'timeouts': sorted((w for w, o in outcome.items() if o == 'timeout'),
                                                                    key=lambda w: w),
                    'bad': bad, 'hung_after_lost': hung, 'times': {str(k): v for k, v in times.items()}, 'max_send_delay': s.max_send_delay,
                    'reading': ft.reading, 'outcome': {str(k): v for k, v in outcome.items()},
                    'fragments': fragments[:10],
                    'aborted': any(x[0] == 'abort' for x in ft.log), 'pending': sum(1 for t in tasks if not t.done()),
                    'reads': [x[0] for x in ft.log if x[0] in ('pause_reading', 'resume_reading')]}
        return loop.run_until_complete(main())
    finally:
        sessions.close_loop(loop)


class C15(Prop):
    id = 'C15'
    coq_header = 'From AV Require Import Base WriteGate.'
    case_type = 'N * list sevent * list N * list N * list N * bool'
    check_fn = 'c15_ok'
    sizes = {'quick': 500, 'thorough': 8000}
    shard = 100
    rule = ('scenarios of <= 40 events on a real session over RSTransport / USTransport and a fake asyncio transport with a '
            'high-water mark (it calls pause_writing from inside write(), as real transports do): 1-8 concurrent senders of '
            'messages of 1..40 bytes (and 70 kB / 200 kB ones), the peer\'s malformed message that makes the session\'s reading loop itself a writer '
            '(alone, or racing with a sender that fills the buffer first), draining (resume_writing), connection loss (after which no '
            'writer may still be blocked), stalls of 7..28 s around max_send_delay, with '
            'task scheduling points in between; observed: order of messages on the transport, messages written while it reported '
            'full, senders that timed out, reading flag, abort; non-trivial = >= 3 senders blocked at once; distinct = distinct scenario')
    trusted = ('harness/vloop.py FakeTransport (high-water mark, pause/resume, close/abort -> connection_lost)',)

    def corpus(self):
        return [{'transport': 'rs', 'hwm': 5, 'events': [['send', 1, 10], ['send', 2, 10], ['send', 3, 10], ['send', 4, 10], ['drain'], ['tick'], ['drain'], ['tick'], ['drain'], ['tick'], ['advance', 28], ['tick']]},
                {'transport': 'us', 'hwm': 5, 'events': [['send', 1, 10], ['send', 2, 10], ['send', 3, 10], ['drain'], ['tick'], ['advance', 28], ['tick']]},
                {'transport': 'us', 'kind': 'client', 'hwm': 5, 'events': [['send', 1, 10], ['send', 2, 10], ['send', 3, 10], ['drain'], ['tick'], ['advance', 28], ['tick']]},
                {'transport': 'rs', 'kind': 'client', 'hwm': 5, 'events': [['send', 1, 10], ['send', 2, 10], ['tick'], ['drain'], ['tick']]},
                {'transport': 'rs', 'hwm': 5, 'events': [['send', 1, 10], ['send', 2, 3], ['advance', 21], ['tick'], ['send', 3, 1], ['tick']]},
                {'transport': 'rs', 'hwm': 5, 'events': [['send', 1, 10], ['send', 2, 3], ['send', 3, 3], ['lost'], ['tick']]},
                # the reading loop is itself a blocked writer (its reply to a malformed message) when the connection is lost
                {'transport': 'rs', 'hwm': 5, 'events': [['sendbad', 1, 10], ['send', 2, 3], ['lost'], ['tick']]},
                {'transport': 'us', 'hwm': 5, 'events': [['sendbad', 1, 10], ['send', 2, 3], ['lost'], ['tick']]},
                {'transport': 'rs', 'kind': 'client', 'hwm': 5, 'events': [['sendbad', 1, 10], ['drain'], ['tick'], ['send', 2, 3], ['tick'], ['drain'], ['tick']]},
                # room is reported at intervals shorter than max_send_delay, the writer in front refills the buffer each time:
                # the writers behind it are still bound by max_send_delay from the moment THEY started
                {'transport': 'rs', 'hwm': 5, 'events': [['send', 1, 10], ['send', 2, 10], ['send', 3, 10], ['advance', 14], ['drain'], ['tick'],
                                                        ['advance', 14], ['tick'], ['advance', 14], ['tick']]},
                {'transport': 'us', 'hwm': 5, 'events': [['send', 1, 10], ['send', 2, 10], ['send', 3, 10], ['send', 4, 10], ['advance', 7], ['drain'], ['tick'],
                                                        ['advance', 7], ['drain'], ['tick'], ['advance', 7], ['tick'], ['advance', 28], ['tick']]},
                {'transport': 'us', 'hwm': 200, 'events': [['bad'], ['send', 1, 300], ['send', 2, 3], ['advance', 21], ['tick']]},
                {'transport': 'rs', 'hwm': 5, 'events': [['sendbad', 1, 10], ['send', 2, 3], ['advance', 21], ['tick']]}]

    def generate(self, rng, n, tier):
        for _ in range(n):
            ev = []
            w = 0
            for _ in range(rng.randrange(3, 40)):
                r = rng.random()
                if r < 0.45 and w < 12:
                    w += 1
                    ev.append(['send', w, rng.choice([1, 3, 6, 10, 40, 40, 70000, 200000])])
                    if rng.random() < 0.12:
                        ev[-1][0] = 'sendbad'
                elif r < 0.48:
                    ev.append(['bad'])
                elif r < 0.65:
                    ev.append(['drain'])
                elif r < 0.85:
                    ev.append(['tick'])
                elif r < 0.9:
                    ev.append(['lost'])
                else:
                    ev.append(['advance', rng.choice([7, 14, 28])])     # multiples of 7: never 20 s after a sender started (timer ties)
            ev += [['advance', 28], ['tick']]       # let stalled sends run into max_send_delay
            yield {'transport': rng.choice(['rs', 'us']), 'kind': rng.choice(['server', 'client']), 'hwm': rng.choice([5, 5, 12, 30, 1000]), 'events': ev}

    def run_impl(self, case):
        if case.get('stall'):
            return self.stall_scenario(case)
        return run_scenario(case)

    def coq_case(self, case, obs):
        if case.get('stall') or obs.get('garbled'):
            return None
        evs = []
        delivered = list(obs['bad']['delivered'])
        for e in case['events']:
            if e[0] in ('send', 'sendbad'):
                evs.append(f"(ESend {c_N(e[1])} {c_N(e[2] + len(str(e[1])) + 1 + 1)})")     # "<id>:" + payload + newline framing
            if e[0] in ('bad', 'sendbad'):
                if delivered.pop(0):
                    evs.append(f"(ESend 99 {c_N(obs['bad']['size'])})")
                elif e[0] == 'bad':
                    evs.append('ETick')          # nothing arrives (reading is paused): the woken tasks just run
            elif e[0] == 'send':
                pass
            elif e[0] == 'tick':
                evs.append('ETick')
            elif e[0] == 'drain':
                evs.append('EDrain')
            elif e[0] == 'lost':
                evs += ['ELost', 'ETick']
            else:
                evs.append(f"(EAdvance {c_N(e[1])})")
        return (f"({c_N(case['hwm'])}, {c_list(evs, 'sevent')}, {c_list([c_N(x) for x in obs['wire']], 'N')}, "
                f"{c_list([c_N(x) for x in obs['blind']], 'N')}, {c_list([c_N(x) for x in obs['timeouts']], 'N')}, {c_bool(obs['reading'])})")

    def coq_show(self, case, obs):
        t = self.coq_case(case, obs)
        return f"let '(h, es, _, _, _, _) := {t} in let s := run_released 200 (srun h es) in (wire (g s), blind (g s), timed_out (g s), reading (g s))"

    def oracle(self, case, obs):
        if case.get('stall'):
            return self.stall_oracle(case, obs)
        if obs.get('garbled'):
            return ('the bytes written are not a sequence of whole messages: a message went out in pieces (sizes %s...) '
                    'and was interleaved with another writer or never completed' % obs['fragments'][:4])
        if obs['blind']:
            return 'a message was written while the transport reported its send buffer full'
        if len(set(obs['wire'])) != len(obs['wire']):
            return 'a message was written twice'
        if obs['hung_after_lost']:
            return ('writers blocked when the connection was lost were not released: still blocked after connection_lost: %s '
                    '(99 = the session reading loop, sending its reply to a malformed message)' % obs['hung_after_lost'])
        if obs['pending']:
            return 'a sender was left hanging'
        for w, o in obs['outcome'].items():
            if o.startswith('other'):
                return 'a sender got an unexpected exception ' + o
        if obs['timeouts'] and not obs['aborted']:
            return 'a send blocked for max_send_delay did not abort the connection'
        for w, (t0, t1) in obs['times'].items():
            if t1 is None:
                continue
            if obs['outcome'].get(w) == 'timeout' and abs((t1 - t0) - obs['max_send_delay']) > 1e-6:
                return (f'a sender gave up with TaskTimeout {t1 - t0:.3f} s after it started sending; a message that cannot be written '
                        f"within max_send_delay = {obs['max_send_delay']} s aborts the connection at that point")
            if t1 - t0 > obs['max_send_delay'] + 1e-6:
                return (f'a sender was blocked for {t1 - t0:.3f} s, longer than max_send_delay = {obs["max_send_delay"]} s, '
                        'before the connection was aborted')
        lost = any(e[0] == 'lost' for e in case['events']) or obs['aborted']
        sent = [e[1] for e in case['events'] if e[0] == 'send']
        if not lost:
            missing = [w for w in sent if w not in obs['wire'] and obs['outcome'].get(str(w)) == 'done']
            if missing:
                return 'a send completed without its message having been written'
        # reading follows the gate: pause_reading / resume_reading strictly alternate starting with pause
        for i, x in enumerate(obs['reads']):
            if x != ('pause_reading' if i % 2 == 0 else 'resume_reading'):
                return 'reading was not paused / resumed together with the send gate'
        return None

    # ---- a stalled peer is aborted after max_send_delay, also when a graceful close is already pending
    @staticmethod
    def stall_scenario(case):
        from aiorpcx import RPCSession
        loop = sessions.new_loop()
        try:
            aborts = []

            class Sess(RPCSession):
                # whoever is blocked - a notification, a request, a batch - and however long the caller is prepared to wait
                # for the response: the stalled connection is aborted after max_send_delay
                sent_request_timeout = case.get('sent_request_timeout', RPCSession.sent_request_timeout)

            async def main():
                proto, ft, s = sessions.attach(Sess, 'server', case['transport'])
                orig_abort, orig_close = ft.abort, ft.close

                def abort():
                    aborts.append(loop.time())
                    return orig_abort()

                def close():
                    if case['close_completes']:
                        return orig_close()
                    ft.closing = True            # unsent data, silent peer: the graceful close never completes
                ft.abort, ft.close = abort, close
                proto.pause_writing()
                t0 = loop.time()
                out = {}

                async def sender():
                    try:
                        kind = case.get('sender', 'notification')
                        if kind == 'notification':
                            await s.send_notification('n', [1])
                        elif kind == 'request':
                            await s.send_request('r', [1])
                        else:
                            async with s.send_batch() as b:
                                b.add_request('r', [1])
                                b.add_request('q')
                        out['sender'] = 'sent'
                    except BaseException as e:
                        out['sender'] = type(e).__name__
                st = loop.create_task(sender())
                await asyncio.sleep(case['close_after']) if case['close_after'] is not None else None
                closer = None
                if case['close_after'] is not None:
                    closer = loop.create_task(s.close(force_after=case['force_after']))
                await asyncio.sleep(60)
                return {'aborts': [a - t0 for a in aborts], 'sender': out.get('sender'), 'lost': ft.lost,
                        'max_send_delay': s.max_send_delay, 'closer_done': closer.done() if closer else None}
            return loop.run_until_complete(main())
        finally:
            sessions.close_loop(loop)

    # ---- a caller that gives up (its own enclosing timeout) while blocked must not take the connection down
    @staticmethod
    def impatient_scenario(case):
        from aiorpcx import RPCSession, ignore_after, timeout_after, TaskTimeout
        loop = sessions.new_loop()
        try:
            aborts = []

            async def main():
                proto, ft, s = sessions.attach(RPCSession, case.get('kind', 'server'), case['transport'])
                orig_abort = ft.abort

                def abort():
                    aborts.append(loop.time())
                    return orig_abort()
                ft.abort = abort
                proto.pause_writing()
                ft.paused = True
                t0 = loop.time()
                out = {}

                async def impatient():
                    try:
                        if case['form'] == 'ignore':
                            async with ignore_after(case['patience']):
                                await s.send_notification('impatient', [1])
                        else:
                            async with timeout_after(case['patience']):
                                await s.send_request('impatient', [1])
                        out['impatient'] = 'returned'
                    except TaskTimeout:
                        out['impatient'] = 'TaskTimeout'
                    except BaseException as e:
                        out['impatient'] = type(e).__name__

                async def patient():
                    try:
                        await s.send_notification('patient', [2])
                        out['patient'] = 'sent'
                    except BaseException as e:
                        out['patient'] = type(e).__name__
                ts = [loop.create_task(impatient()), loop.create_task(patient())]
                await asyncio.sleep(case['stall'])
                ft.paused = False
                proto.resume_writing()
                await asyncio.sleep(1.0)
                wire = [m.get('method') for m in sessions.sent_messages(ft) if isinstance(m, dict)]
                for x in ts:
                    x.cancel()
                return {'aborts': [a - t0 for a in aborts], 'out': out, 'lost': ft.lost, 'closing': ft.closing, 'wire': wire,
                        'max_send_delay': s.max_send_delay}
            return loop.run_until_complete(main())
        finally:
            sessions.close_loop(loop)

    @staticmethod
    def impatient_oracle(case, obs):
        if obs['aborts'] or obs['lost'] or obs['closing']:
            return (f"the connection was aborted {obs['aborts']} s into a stall of {case['stall']} s (max_send_delay = "
                    f"{obs['max_send_delay']} s) because one caller's own timeout of {case['patience']} s expired")
        if obs['wire'].count('patient') != 1:
            return f"a blocked message was written {obs['wire'].count('patient')} times once room was reported (wire: {obs['wire']})"
        if obs['out'].get('patient') != 'sent':
            return f"the patient sender ended with {obs['out'].get('patient')}"
        return None

    @staticmethod
    def stall_oracle(case, obs):
        d = obs['max_send_delay']
        if case['close_after'] is not None and case['close_completes']:
            return None if obs['lost'] else 'the connection was not lost after close()'
        if not obs['aborts'] or obs['aborts'][0] > d + 1e-6:
            when = ('never' if not obs['aborts'] else 'only after %.1f s' % obs['aborts'][0])
            return (f'a message could not be written for max_send_delay = {d} s but the connection was aborted {when}'
                    + (' (a graceful close was pending)' if case['close_after'] is not None else ''))
        if obs['sender'] != 'TaskTimeout' and case.get('sender', 'notification') == 'notification':
            return f"the blocked sender ended with {obs['sender']} instead of TaskTimeout"
        return None

    def extra_checks(self, ctx):
        from harness.core import Failure
        out = []
        n = 0
        for transport in ('rs', 'us'):
            for close_after, completes, force in ((None, False, 30), (1.0, False, 30), (5.0, False, 45), (19.0, False, 30), (1.0, True, 30)):
                case = {'stall': True, 'transport': transport, 'close_after': close_after, 'close_completes': completes,
                        'force_after': force}
                obs = self.stall_scenario(case)
                n += 1
                ctx['extra_evals'] += 1
                cl = self.stall_oracle(case, obs)
                if cl:
                    out.append(Failure(case, obs, cl))
            for sender in ('request', 'batch'):
                for srt in (5.0, 19.5, 30.0, 45.0):
                    case = {'stall': True, 'transport': transport, 'close_after': None, 'close_completes': False, 'force_after': 30,
                            'sender': sender, 'sent_request_timeout': srt}
                    obs = self.stall_scenario(case)
                    n += 1
                    ctx['extra_evals'] += 1
                    cl = self.stall_oracle(case, obs)
                    if cl:
                        out.append(Failure(case, obs, cl + f' (blocked sender: a {sender}, sent_request_timeout = {srt})'))
            for form in ('ignore', 'timeout'):
                for patience, stall in ((2.0, 5.0), (0.5, 19.0), (10.0, 12.0)):
                    case = {'impatient': True, 'transport': transport, 'form': form, 'patience': patience, 'stall': stall,
                            'kind': 'client' if form == 'timeout' else 'server'}
                    obs = self.impatient_scenario(case)
                    n += 1
                    ctx['extra_evals'] += 1
                    cl = self.impatient_oracle(case, obs)
                    if cl:
                        out.append(Failure(case, obs, cl))
        ctx['notes'].append(f'stalled-peer scenarios on a real session: {n} (with and without a graceful close pending; blocked callers that give up)')
        return out[:3]

    def nontrivial(self, case, obs):
        if case.get('stall'):
            return True
        return sum(1 for e in case['events'] if e[0] == 'send') >= 4 and 'drain' in [e[0] for e in case['events']]

    def histogram(self, case, obs):
        if case.get('stall'):
            return ['stall']
        h = ['transport=' + case['transport'], 'kind=' + case.get('kind', 'server'), 'hwm=%d' % case['hwm']]
        if obs['timeouts']:
            h.append('has_timeout')
        if obs['blind']:
            h.append('has_blind_write')
        if any(e[0] == 'lost' for e in case['events']):
            h.append('has_lost')
        return h


PROP = C15()
