"""C13 - the limiter (session.Concurrency) as an LTS (model/Limiter.v): trace acceptance."""
import asyncio
from harness.core import Prop, c_N, c_Z, c_list
from harness.steploop import StepLoop


def run_trace(case):
    """drive the real Concurrency one loop handle at a time; returns the label/snapshot trace"""
    from aiorpcx.session import Concurrency, ExcessiveSessionCostError
    loop = StepLoop()
    loop.set_task_factory(lambda lp, coro: asyncio.tasks._PyTask(coro, loop=lp))
    asyncio.set_event_loop(loop)
    try:
        c = Concurrency(case['t0'])
        state, gates, tasks, phase = {}, {}, {}, {}

        async def worker(w):
            try:
                async with c:
                    state[w] = 'holding'
                    await gates[w]
                state[w] = 'exited'
            except ExcessiveSessionCostError:
                state[w] = 'refused'
            except asyncio.CancelledError:
                state[w] = 'cancelled'
                raise

        def snapshot():
            fm = {}
            for w, t in tasks.items():
                if phase.get(w) == 'queued' and t._fut_waiter is not None:
                    fm[id(t._fut_waiter)] = w
            ws = []
            for f in (c._semaphore._waiters or ()):
                w = fm.get(id(f), 0)
                ws.append([w, 'WCancelled' if f.cancelled() else 'Woken' if f.done() else 'Pending'])
            return {'semv': c._sem_value, 'value': c._semaphore._value,
                    'holders': sorted(w for w, v in state.items() if v == 'holding'),
                    'waiters': ws, 'refused': sorted(w for w, v in state.items() if v == 'refused')}

        trace = []
        nw = 0
        for op in case['ops']:
            kind = op[0]
            label = None
            if kind == 'enter':
                nw += 1
                gates[nw] = loop.create_future()
                tasks[nw] = loop.create_task(worker(nw))
                phase[nw] = 'new'
            elif kind == 'tick':
                h = loop.tick()
                if h is None:
                    continue
                t = getattr(h._callback, '__self__', None)
                w = next((k for k, v in tasks.items() if v is t), None)
                if w is None:
                    continue
                if phase[w] == 'new':
                    label = ['Start', w]
                elif phase[w] == 'queued':
                    label = ['Wake', w]
                elif phase[w] == 'exiting':
                    label = ['Exit', w]
                st = state.get(w)
                phase[w] = {'holding': 'holding', None: 'queued'}.get(st, 'done')
            elif kind == 'exit':
                hold = [w for w in sorted(tasks) if phase[w] == 'holding']
                if not hold:
                    continue
                w = hold[op[1] % len(hold)]
                gates[w].set_result(None)
                phase[w] = 'exiting'
            elif kind == 'cancel':
                q = [w for w in sorted(tasks) if phase[w] == 'queued']
                if not q:
                    continue
                w = q[op[1] % len(q)]
                tasks[w].cancel()
                label = ['Cancel', w]
            elif kind == 'settarget':
                c.set_target(op[1])
                label = ['SetTarget', op[1]]
            if label is not None:
                trace.append([label, snapshot()])
        # finish: let everything drain so that no task is left pending
        for w in list(tasks):
            if not gates[w].done():
                gates[w].set_result(None)
            tasks[w].cancel()
        loop.drain(20000)
        return trace
    finally:
        asyncio.set_event_loop(None)


class C13(Prop):
    id = 'C13'
    coq_header = 'From AV Require Import Base Limiter.'
    case_type = 'Z * list (label * snap)'
    check_fn = 'c13_ok'
    sizes = {'quick': 600, 'thorough': 8000}
    shard = 60
    rule = ('random operation sequences (enter / run one loop handle / release a holder / cancel a queued waiter / '
            'set_target n, n mostly >= 1, sometimes 0) of length <= 200 on the real Concurrency, driven one event-loop '
            'handle at a time; after EVERY label the real _sem_value, Semaphore._value, holder set, waiter queue with '
            'per-future state and refused set are compared with the model state (trace acceptance); non-trivial = trace '
            'with a queued waiter and a target change; distinct = distinct op sequence')
    trusted = ('harness/steploop.py (single-step event loop replicating BaseEventLoop._run_once ordering)',
               'asyncio.Semaphore of CPython 3.12.1 as transcribed in model/Limiter.v')

    def corpus(self):
        return [{'t0': 2, 'ops': [['enter'], ['enter'], ['enter'], ['tick'], ['tick'], ['tick'], ['settarget', 1],
                                  ['exit', 0], ['tick'], ['exit', 0], ['tick'], ['tick']]},
                {'t0': 1, 'ops': [['enter'], ['enter'], ['tick'], ['tick'], ['exit', 0], ['tick'], ['cancel', 0], ['tick']]},
                {'t0': 1, 'ops': [['enter'], ['tick'], ['settarget', 0], ['enter'], ['exit', 0], ['tick'], ['tick'], ['tick']]}]

    def generate(self, rng, n, tier):
        for _ in range(n):
            ops = []
            allow_zero = rng.random() < 0.25
            for _ in range(rng.randrange(5, 200)):
                a = rng.choice(['enter'] * 3 + ['tick'] * 7 + ['exit'] * 3 + ['cancel'] + ['settarget'])
                if a in ('exit', 'cancel'):
                    ops.append([a, rng.randrange(8)])
                elif a == 'settarget':
                    ops.append([a, rng.choice([0, 1, 2] if allow_zero else [1, 1, 2, 3, 5, rng.randrange(1, 7)])])
                    if ops[-1][1] <= 0:
                        if rng.random() < 0.3:
                            ops[-1][1] = rng.choice([0, -1, -3])
                        # entries attempted while the limit is zero or less (permits may still be in circulation)
                        ops += [['enter'], ['tick'], ['tick']] * rng.randrange(1, 3)
                else:
                    ops.append([a])
            yield {'t0': rng.randrange(1, 4), 'ops': ops}

    def run_impl(self, case):
        if case.get('session_workload'):
            return self.session_workload(case)
        return run_trace(case)

    def coq_case(self, case, obs):
        if case.get('session_workload'):
            return None
        items = []
        for (lab, s) in obs:
            l = f"({lab[0]} {c_Z(lab[1])})" if lab[0] == 'SetTarget' else f"({lab[0]} {c_N(lab[1])})"
            ws = c_list([f"({c_N(w)}, {st})" for w, st in s['waiters']], 'N * wst')
            sn = (f"{{| s_semv := {c_Z(s['semv'])}; s_value := {c_Z(s['value'])}; "
                  f"s_holders := {c_list([c_N(x) for x in s['holders']], 'N')}; s_waiters := {ws}; "
                  f"s_refused := {c_list([c_N(x) for x in s['refused']], 'N')} |}}")
            items.append(f"({l}, {sn})")
        return f"({c_Z(case['t0'])}, {c_list(items, 'label * snap')})"

    def oracle(self, case, obs):
        if case.get('session_workload'):
            return ('session level: ' + obs['viol'][0]) if obs['viol'] else None
        maxt = case['t0']
        target = case['t0']
        ok_targets = True
        prev_w = []
        prev = None
        for lab, s in obs:
            if lab[0] == 'Start' and target <= 0 and lab[1] not in s['refused']:
                return f'entry under a limit of {target} was not refused with ExcessiveSessionCostError'
            if lab[0] == 'Exit' and prev is not None and ok_targets:
                if prev['semv'] > target:
                    if s['semv'] != prev['semv'] - 1:
                        return 'an exit above the limit did not retire exactly one excess permit'
                else:
                    firstp = next((x for x, y in prev['waiters'] if y == 'Pending'), None)
                    now = {a: b for a, b in s['waiters']}
                    if firstp is not None and now.get(firstp) != 'Woken':
                        return 'an exit at or below the limit did not hand its permit to the first queued waiter'
                    if firstp is None and s['value'] != prev['value'] + 1:
                        return 'an exit at or below the limit did not return its permit'
            if lab[0] == 'SetTarget':
                target = lab[1]
            if lab[0] == 'SetTarget':
                maxt = max(maxt, lab[1])
                if lab[1] < 1:
                    ok_targets = False
            woken = sum(1 for w, st in s['waiters'] if st == 'Woken')
            if s['value'] < 0:
                return 'semaphore value negative'
            if ok_targets:
                if len(s['holders']) + s['value'] + woken != s['semv']:
                    return 'a permit was lost or duplicated (holders + free + handed-over != _sem_value)'
                if len(s['holders']) > maxt:
                    return 'more holders than the largest limit ever in force'
            # FIFO hand-over: a waiter newly Woken must have been the first Pending one
            before = {w: st for w, st in prev_w}
            for w, st in s['waiters']:
                if st == 'Woken' and before.get(w) == 'Pending':
                    firstp = next((x for x, y in prev_w if y == 'Pending'), None)
                    if firstp != w and lab[0] != 'Cancel':
                        # several hand-overs in one label: accept if all earlier pending were woken too
                        earlier = [x for x, y in prev_w if y == 'Pending' and prev_w.index([x, y]) < prev_w.index([w, 'Pending'])]
                        now = {a: b for a, b in s['waiters']}
                        if any(now.get(x) == 'Pending' for x in earlier):
                            return 'a permit was handed to a waiter that was not first in the queue'
            prev_w = s['waiters']
            prev = s
        return None

    # ---- the session-level bound: a real RPCSession serving more requests than its limit
    @staticmethod
    def session_workload(case):
        """requests (RPCSession) or messages (MessageSession) arriving on a real session whose handlers finish when
        the scenario says so; the limit is changed directly and through the session's cost, time advances"""
        import asyncio, json
        from harness import sessions
        from aiorpcx import RPCSession, MessageSession, framing
        from aiorpcx.session import Concurrency
        loop = sessions.new_loop()
        restore = []
        try:
            gates, running, peak, order, done = {}, set(), [0], [], []
            arrival, asked, admitted = {}, [], []
            msg = case.get('session') == 'message'
            events, ended_set = [], set()       # raw events in order of occurrence -> labels of model/Throttle.v
            ptimeout = case.get('ptimeout', 10 ** 6)

            class CT(asyncio.tasks._PyTask):
                def cancel(self, msg=None):
                    k = arrival.get(self)
                    if k is not None and not self.done():
                        events.append(['cancel', k])
                    return super().cancel(msg)
            loop.set_task_factory(lambda lp, coro, **kw: CT(coro, loop=lp, **kw))

            holding, unheld = set(), []

            async def handle(k):
                if k not in holding:
                    unheld.append(k)
                events.append(['hstart', k])
                running.add(k)
                order.append(k)
                peak[0] = max(peak[0], len(running))
                aborted = False
                try:
                    await gates[k]
                except asyncio.CancelledError:
                    aborted = True
                    raise
                finally:
                    running.discard(k)
                    done.append(k)
                    events.append(['abort' if aborted else 'hend', k])
                return k

            def tracked(k, coro_fn):
                # the task of request k: 'arrive' when the session creates the coroutine, 'first' at its first step
                events.append(['arrive', k])

                async def run():
                    events.append(['first', k])
                    arrival[asyncio.current_task()] = k
                    try:
                        return await coro_fn()
                    finally:
                        ended_set.add(k)
                        events.append(['end', k])
                return run()

            class RSrv(RPCSession):
                processing_timeout = ptimeout
                cost_decay_per_sec = 0

                async def handle_request(self, request):
                    return await handle(request.args[0])

                def _throttled_request(self, request):
                    return tracked(request.args[0], lambda: RPCSession._throttled_request(self, request))

            class MSrv(MessageSession):
                processing_timeout = ptimeout
                cost_decay_per_sec = 0

                async def handle_message(self, message):
                    return await handle(int(message[1]))

                def _throttled_message(self, message):
                    return tracked(int(message[1]), lambda: MessageSession._throttled_message(self, message))

            class Watch(Concurrency):
                # the limiter guarding the handlers: who asks for a permit and who gets one, in order
                async def __aenter__(self_):
                    k = arrival.get(asyncio.current_task())
                    asked.append(k)
                    queued = self_._target > 0 and self_._semaphore.locked()
                    events.append(['ask', k])
                    try:
                        r = await Concurrency.__aenter__(self_)
                    except BaseException:
                        events.append(['wake' if queued else 'refused', k])
                        raise
                    if queued:
                        events.append(['wake', k])
                    events.append(['admit', k])
                    admitted.append(k)
                    holding.add(k)
                    return r

                async def __aexit__(self_, *exc):
                    holding.discard(arrival.get(asyncio.current_task()))
                    return await Concurrency.__aexit__(self_, *exc)

                def set_target(self_, n):
                    events.append(['target', n])
                    return Concurrency.set_target(self_, n)

            async def main():
                proto, ft, s = sessions.attach(MSrv if msg else RSrv, 'server', case['transport'])
                s._incoming_concurrency.__class__ = Watch
                conc = s._incoming_concurrency
                from aiorpcx import session as session_mod
                real_sleep = session_mod.sleep

                async def watched_sleep(delay, *a):
                    k = arrival.get(asyncio.current_task())
                    aborted = False
                    try:
                        return await real_sleep(delay, *a)
                    except asyncio.CancelledError:
                        aborted = True
                        raise
                    finally:
                        if k is not None:
                            events.append(['abort' if aborted else 'slept', k])
                session_mod.sleep = watched_sleep
                restore.append(lambda: setattr(session_mod, 'sleep', real_sleep))

                def snap():
                    events.append(['snap', {'semv': conc._sem_value, 'value': conc._semaphore._value,
                                            'holders': sorted(holding), 'running': sorted(running),
                                            'nwaiters': len(conc._semaphore._waiters or ()),
                                            'ended': sorted(ended_set), 'asked': list(asked),
                                            'unanswered': None if (ft.closing or ft.lost) else s.unanswered_request_count()}])
                fr = framing.BitcoinFramer()
                n = case['n']
                viol = []
                for k in range(n):
                    gates[k] = loop.create_future()
                sent = 0
                limit0 = s._incoming_concurrency.max_concurrent
                largest = limit0
                costed = False
                closed = False
                for step in case['steps']:
                    if ft.closing or ft.lost:
                        # the session disconnected the peer (timeouts are errors, errors cost: C14); what arrives
                        # afterwards is not received, what was queued is cancelled
                        closed = True
                        break
                    if step[0] == 'arrive':
                        for _ in range(step[1]):
                            if sent < n:
                                if msg:
                                    proto.data_received(fr.frame((b'work', b'%d' % sent)))
                                else:
                                    kind = 'notification' if (sent % 7 == 3) else 'request'
                                    d = {'jsonrpc': '2.0', 'method': 'work', 'params': [sent]}
                                    if kind == 'request':
                                        d['id'] = sent
                                    proto.data_received(json.dumps(d).encode() + b'\n')
                                sent += 1
                    elif step[0] == 'arrive_batch':
                        # one message holding several requests / notifications: its members arrive in the order they are written
                        ms = []
                        for _ in range(step[1]):
                            if sent < n:
                                d = {'jsonrpc': '2.0', 'method': 'work', 'params': [sent]}
                                if sent % 7 != 3:
                                    d['id'] = sent
                                ms.append(d)
                                sent += 1
                        if ms and msg:
                            for d in ms:
                                proto.data_received(fr.frame((b'work', b'%d' % d['params'][0])))
                        elif ms:
                            proto.data_received(json.dumps(ms).encode() + b'\n')
                    elif step[0] == 'finish':
                        live = sorted(running)
                        for k in live[:step[1]]:
                            if not gates[k].done():
                                gates[k].set_result(None)
                    elif step[0] == 'limit':
                        s._incoming_concurrency.set_target(step[1])
                        largest = max(largest, step[1])
                    elif step[0] == 'cost':
                        # the session's cost moves (charged by the application, refunded): delay and limit follow
                        s.cost = step[1]
                        s.recalc_concurrency()
                        costed = True
                    elif step[0] == 'advance':
                        await asyncio.sleep(step[1])
                    await sessions.settle(8)
                    snap()
                    largest = max(largest, s._incoming_concurrency.max_concurrent)
                    if len(running) > largest:
                        viol.append(f'{len(running)} handlers run at once, the largest limit in force was {largest}')
                    unanswered = s.unanswered_request_count()
                    if ft.closing or ft.lost:
                        closed = True
                        continue
                    if unanswered != sent - len(ended_set):
                        viol.append(f'unanswered_request_count() = {unanswered}, received {sent}, finished {len(ended_set)}')
                # drain: everything is eventually served, in arrival order
                for _ in range(4 * n):
                    for k in sorted(running):
                        if not gates[k].done():
                            gates[k].set_result(None)
                    await asyncio.sleep(3)       # cost-proportional sleeps (errors cost too) run on virtual time
                    await sessions.settle(8)
                    snap()
                    if len(ended_set) == sent:
                        break
                closed = closed or ft.closing or ft.lost
                nreq = sum(1 for e in events if e[0] == 'arrive')
                if closed:
                    pass
                elif len(ended_set) != sent or (len(done) != sent and ptimeout > 10 ** 5):
                    viol.append(f'only {len(done)} of {sent} requests were ever served ({len(ended_set)} ended)')
                if order != sorted(order) and not any(e[0] in ('slept', 'abort') for e in events):
                    viol.append('requests were not admitted in arrival order')
                if None in asked or sorted(asked) != list(range(nreq)):
                    viol.append('a handler ran without asking the session\'s limiter for a permit')
                elif admitted != sorted(admitted) or asked != sorted(asked):
                    viol.append(f'requests beyond the limit do not wait in arrival order: permits asked in order {asked[:12]}..., '
                                f'granted in order {admitted[:12]}...')
                elif unheld:
                    viol.append(f'the handlers of requests {unheld[:8]} started while their requests held no permit')
                return {'viol': viol[:3], 'peak': peak[0], 'limit0': limit0, 'sent': sent, 'costed': costed,
                        'events': events, 'closed': bool(closed)}
            return loop.run_until_complete(main())
        finally:
            for f in restore:
                f()
            sessions.close_loop(loop)

    # ---- the same run as a trace of model/Throttle.v
    @staticmethod
    def throttle_term(case, obs, nops):
        """labels of model/Throttle.v for the events of a session workload; a snapshot of the real session after
        every scenario step.  A suspension point the real run passed without suspending (a sleep of zero length
        that is skipped, a send that completes at once) is a suspension followed at once by its resumption."""
        from harness.core import c_N, c_Z, c_nat, c_list
        out = []
        last = {}
        queued = set()
        for ev in obs['events']:
            kind, x = ev
            lab = []
            if kind == 'arrive':
                lab = [f'TArrive {c_N(x)}']
            elif kind == 'first':
                lab = ['TFirst']
            elif kind == 'wake':
                lab = [f'TWake {c_N(x)}']
                queued.discard(x)
            elif kind == 'slept':
                lab = [f'TResume {c_N(x)}']
            elif kind == 'hstart':
                if last.get(x) != 'slept':
                    lab = [f'TResume {c_N(x)}']        # the cost-proportional sleep was skipped
            elif kind == 'hend':
                lab = [f'TResume {c_N(x)}']
            elif kind == 'ask':
                queued.add(x)
            elif kind in ('admit', 'refused'):
                queued.discard(x)
            elif kind == 'cancel':
                if x in queued:
                    lab = [f'TCancelW {c_N(x)}']       # otherwise the exception arrives with the 'abort' event
            elif kind == 'abort':
                lab = [f'TAbort {c_N(x)}']
            elif kind == 'end':
                lab = [f'TResume {c_N(x)}'] * nops      # whatever is left of the coroutine ran without suspending
            elif kind == 'target':
                lab = [f'TSetTarget {c_Z(x)}']
            elif kind == 'snap':
                nl = lambda xs: c_list([c_N(v) for v in xs], 'N')
                s = (f"{{| ts_semv := {c_Z(x['semv'])}; ts_value := {c_Z(x['value'])}; ts_holders := {nl(x['holders'])}; "
                     f"ts_running := {nl(x['running'])}; ts_nwaiters := {c_nat(x['nwaiters'])}; "
                     f"ts_ended := {nl(x['ended'])}; ts_asked := {nl(x['asked'])}; "
                     f"ts_unanswered := {'None' if x.get('unanswered') is None else '(Some ' + c_nat(x['unanswered']) + ')'} |}}")
                if out:
                    out[-1] = (out[-1][0], s)
                continue
            if kind != 'snap':
                last[x] = kind
            out += [(l, None) for l in lab]
        items = [f"({l}, {'(@None tsnap)' if s is None else '(Some ' + s + ')'})" for l, s in out]
        return f"({'true' if case.get('session') == 'message' else 'false'}, {c_Z(obs['limit0'])}, {c_list(items, 'tlabel * option tsnap')})"

    def extra_checks(self, ctx):
        from harness.core import Failure
        rng = ctx['rng']
        out = []
        n = 40 if ctx['tier'] == 'quick' else 600
        peaks = []
        runs = []
        directed = [{'session_workload': True, 'n': 40, 'session': k, 'transport': tr,
                     'steps': [['cost', 6000], ['arrive', 30], ['cost', 2400], ['arrive', 5], ['advance', 2.5], ['finish', 40]]}
                    for k, tr in (('rpc', 'rs'), ('message', 'us'))]
        # requests that run into the processing timeout while queued, while sleeping and inside their handler
        directed += [{'session_workload': True, 'n': 40, 'session': k, 'transport': 'rs', 'ptimeout': 4.0,
                      'steps': [['cost', 9000], ['arrive', 24], ['advance', 2.0], ['finish', 6], ['arrive', 6], ['advance', 2.5],
                                ['finish', 2], ['arrive', 4], ['advance', 2.5], ['finish', 3], ['advance', 5.0]]}
                     for k in ('rpc', 'message')]
        directed += [{'session_workload': True, 'n': 30, 'session': 'rpc', 'transport': 'us', 'ptimeout': 1.5,
                      'steps': [['cost', 6000], ['arrive', 14], ['advance', 0.5], ['cost', 3000], ['arrive', 6], ['advance', 1.2],
                                ['finish', 5], ['advance', 1.0], ['arrive', 5], ['finish', 10], ['advance', 3.0]]}]
        # the cost passes the hard limit (nobody may start) and is refunded while handlers are still running, with no
        # arrival in between: the handlers still running keep their permits, later arrivals queue behind them
        directed += [{'session_workload': True, 'n': 60, 'session': k, 'transport': tr,
                      'steps': [['arrive', 20], ['cost', 12000], ['cost', c2], ['arrive', 30], ['advance', 1.0], ['finish', 5],
                                ['advance', 1.0], ['finish', 60]]}
                     for k, tr, c2 in (('rpc', 'rs', 0), ('message', 'us', 0), ('rpc', 'us', 6000))]
        # batches arriving while the limit is saturated: the members wait, and are served, in the order they were written
        directed += [{'session_workload': True, 'n': 60, 'session': 'rpc', 'transport': tr,
                      'steps': [['arrive', 20], ['arrive', 1], ['arrive_batch', 5], ['arrive', 1], ['advance', 0.5]] +
                               [['finish', 1], ['advance', 0.2]] * 10 + [['arrive_batch', 3], ['finish', 60], ['advance', 1.0]]}
                     for tr in ('rs', 'us')]
        for i in range(n):
            steps = []
            for _ in range(rng.randrange(4, 14)):
                r = rng.random()
                steps.append(['arrive_batch', rng.choice([2, 3, 6, 25])] if r < 0.12 else
                             ['arrive', rng.choice([1, 5, 30, 70])] if r < 0.5 else
                             ['finish', rng.choice([1, 3, 10, 40])] if r < 0.85 else ['limit', rng.choice([3, 8, 20, 30])])
            if rng.random() < 0.4:
                # the cost of the session moves between arrivals and time passes: delays differ from request to request
                for _ in range(rng.randrange(2, 6)):
                    at = rng.randrange(len(steps) + 1)
                    steps[at:at] = [['cost', rng.choice([0, 2400, 3000, 4000, 6000, 8000])], ['arrive', rng.choice([1, 2, 30])],
                                    ['advance', rng.choice([0.05, 0.3, 1.0, 2.5])]]
                if rng.random() < 0.3:
                    at = rng.randrange(len(steps) + 1)
                    steps[at:at] = [['cost', 12000], ['cost', rng.choice([0, 3000, 6000])]]     # over the hard limit and back
            case = {'session_workload': True, 'n': rng.choice([30, 80, 150]), 'steps': steps,
                    'session': rng.choice(['rpc', 'rpc', 'message']), 'transport': rng.choice(['rs', 'us'])}
            if rng.random() < 0.25:
                case['ptimeout'] = rng.choice([1.5, 4.0, 9.0])
                for _ in range(rng.randrange(2, 6)):
                    steps.insert(rng.randrange(len(steps) + 1), ['advance', rng.choice([0.5, 1.0, 2.5, 5.0])])
            if i < len(directed):
                case = directed[i]
            obs = self.session_workload(case)
            peaks.append(obs['peak'])
            runs.append((case, obs))
            if obs['viol']:
                out.append(Failure(case, obs, 'session level: ' + obs['viol'][0]))
                if len(out) >= 3:
                    break
        # the same runs as traces of model/Throttle.v (the coroutine shape comes from gen/Gen_session.v)
        if ctx['build_ok'] and runs:
            from harness import core
            shapes = {}
            for name in ('throttled_request_ops', 'throttled_message_ops'):
                import re
                m = re.search(name + r' : list throttle_op := \[(.*?)\]', open(core.COQ + '/gen/Gen_session.v').read())
                shapes[name] = len([x for x in m.group(1).split(';') if x.strip()]) if m else 8
            terms = [self.throttle_term(c, o, shapes['throttled_message_ops' if c.get('session') == 'message' else 'throttled_request_ops'])
                     for c, o in runs]
            mism, errors = core.eval_cases('C13s', 'From AV Require Import Base Limiter Gen_session Throttle.',
                                           'bool * Z * list (tlabel * option tsnap)', 'throttle_ok', terms, shard=8)
            for k, err in errors:
                ctx['broken'].append({'kind': 'correspondence', 'what': f'session-level cases shard {k} did not evaluate: {err[-600:]}'})
            failed_cases = {id(f.case) for f in out}
            for j in mism:
                c, o = runs[j]
                if id(c) in failed_cases:
                    continue
                shown = core.eval_show('C13s', 'From AV Require Import Base Limiter Gen_session Throttle.',
                                       f"let '(m, t, tr) := {terms[j]} in ttrace_firstbad (if m then throttled_message_ops else throttled_request_ops) (tinit t) tr 0")
                ctx['broken'].append({'kind': 'correspondence',
                                      'what': 'the session-level model (model/Throttle.v, correspondence check throttle_ok) and the real '
                                              'session differ on a workload; first label whose snapshot differs: ' + str(shown)[-200:],
                                      'case': c, 'events': [e for e in o['events'] if e[0] != 'snap'][:400]})
                break
            ctx['extra_evals'] += len(terms)
            ctx['notes'].append(f'session-level traces accepted by model/Throttle.v: {len(terms) - len(mism)} of {len(terms)} '
                                f'({sum(len(o["events"]) for _, o in runs)} events)')
        ctx['notes'].append(f'session-level workloads on a real RPCSession / MessageSession (cost moving in about 40%): {n}, peak concurrent handlers max {max(peaks)} '
                            f'(reaching the limit in {sum(1 for p in peaks if p >= 20)} of them)')
        return out

    def nontrivial(self, case, obs):
        if case.get('session_workload'):
            return True
        return any(s['waiters'] for _, s in obs) and any(l[0] == 'SetTarget' for l, _ in obs)

    def histogram(self, case, obs):
        if case.get('session_workload'):
            return ['session_workload']
        h = {}
        for lab, s in obs:
            h['label=' + lab[0]] = 1
        out = list(h)
        if any(s['refused'] for _, s in obs):
            out.append('has_refusal')
        if any(st == 'WCancelled' for _, s in obs for _, st in s['waiters']):
            out.append('has_cancelled_waiter')
        out.append('labels~%d' % (10 * (len(obs) // 10)))
        return out


PROP = C13()
