"""C14 - session cost accounting (model/Cost.v): trace comparison against a real SessionBase."""
import asyncio, types
from fractions import Fraction
from harness.core import Prop, c_Z, c_Q, c_list


class Clock:
    def __init__(self, t0):
        self.t = t0

    def time(self):
        return self.t


def run_trace(case):
    from aiorpcx import session
    cfg = case['cfg']
    clock = Clock(case['t0'])
    real_time = session.time
    session.time = clock
    try:
        class T:
            kind = session.SessionKind.CLIENT if case['client'] else session.SessionKind.SERVER

            async def write(self, message):
                pass

        class S(session.SessionBase):
            bw_cost_per_byte = cfg['bw']
            cost_soft_limit = cfg['soft']
            cost_hard_limit = cfg['hard']
            cost_decay_per_sec = cfg['decay']
            cost_sleep = cfg['sleep']
            error_base_cost = cfg['error_base']
            initial_concurrent = cfg['initial']
            _extra = 0.0

            def extra_cost(self):
                return self._extra

        async def main():
            s = S(T())
            trace = []
            hard = s.cost_hard_limit
            for lab, extra in case['ops']:
                s._extra = extra
                kind = lab[0]
                delta = None
                if kind in ('Recv', 'Send'):
                    delta = Fraction(lab[1]) * Fraction(s.bw_cost_per_byte)
                elif kind == 'Error':
                    delta = Fraction(s.error_base_cost) + Fraction(lab[1])
                elif kind == 'Bump':
                    delta = Fraction(lab[1])
                before_last = (s._cost_last, s._cost_time)
                if kind == 'Recv':
                    s.data_received(bytes(lab[1]))
                elif kind == 'Send':
                    await s._send_message(bytes(lab[1]))
                elif kind == 'Error':
                    e = Exception()
                    if lab[1]:
                        e.cost = lab[1]
                    s._bump_errors(e)
                elif kind == 'Bump':
                    s.bump_cost(lab[1])
                elif kind == 'Recalc':
                    s.recalc_concurrency()
                elif kind == 'Advance':
                    clock.t += lab[1]
                recalced = kind == 'Recalc' or (delta is not None and abs(max(0, 0) + 0) == 0 and
                                                (s._cost_last, s._cost_time) != before_last) or \
                    (delta is not None and s._cost_time == clock.t and before_last[1] != clock.t)
                trace.append({'lab': lab, 'extra': extra, 'cost': s.cost, 'last': s._cost_last,
                              'frac': s._cost_fraction, 'target': s._incoming_concurrency._target,
                              'errors': s.errors, 'recalced': bool(recalced), 'hard': s.cost_hard_limit})
            return trace
        return asyncio.run(main())
    finally:
        session.time = real_time


def q(x):
    return c_Q(Fraction(x))


def _capture_factory(serve):
    """the protocol factory serve_rs / serve_us hands to the event loop (captured with a stub loop; nothing is bound)"""
    import asyncio
    from aiorpcx import RPCSession
    got = {}

    class StubLoop:
        async def create_server(self, factory, *a, **kw):
            got['f'] = factory

        async def create_unix_server(self, factory, *a, **kw):
            got['f'] = factory
    coro = serve(RPCSession, loop=StubLoop())
    try:
        coro.send(None)
    except StopIteration:
        pass
    return got['f']


def message_session_send(cmd, payload_len):
    """MessageSession.send_message((command, payload)): how much is charged?"""
    from aiorpcx import session

    class T:
        kind = session.SessionKind.SERVER

        def __init__(self):
            self.written = []

        async def write(self, message):
            self.written.append(message)

    async def main():
        t = T()
        s = session.MessageSession(t)
        before = (s.cost, s.send_size, s.send_count)
        await s.send_message((cmd, bytes(payload_len)))
        framed = len(s.default_framer().frame((cmd, bytes(payload_len))))
        return {'cost': s.cost - before[0], 'send_size': s.send_size - before[1], 'count': s.send_count - before[2],
                'bw': s.bw_cost_per_byte, 'framed': framed, 'written': len(t.written)}
    return asyncio.run(main())


class C14(Prop):
    id = 'C14'
    coq_header = 'From Coq Require Import QArith.\nFrom AV Require Import Base Cost.'
    case_type = 'config * Q * list (clabel * Q * csnap)'
    check_fn = 'c14_ok'
    sizes = {'quick': 500, 'thorough': 8000}
    shard = 50
    rule = ('histories of <= 120 labels (chunks received / messages sent of 0..3e6 bytes, errors with extra cost, bump_cost of '
            'either sign, explicit re-evaluations, time advances of 0..2000 s, extra_cost values) over random configurations '
            '(soft/hard incl. hard <= soft, decay, cost_sleep, error base cost, initial concurrency 1..30; server and client '
            'kind); after every label cost, _cost_last, _cost_fraction, limiter target and error count of a real SessionBase '
            'are compared with the exact-rational model (floats up to 1e-6 relative; a target next to a ceil boundary may '
            'differ by the neighbouring integer); non-trivial = a history with >= 2 re-evaluations and a target change')
    assumptions = ('float rounding is not modelled: IEEE rounding is monotone, observed floats are compared to the exact model within 1e-6',)

    def corpus(self):
        d = {'bw': 1e-5, 'soft': 2000, 'hard': 10000, 'decay': 10000 / 3600, 'sleep': 2.0, 'error_base': 100.0, 'initial': 20}
        return [{'cfg': d, 'client': False, 't0': 1000.0,
                 'ops': [[['Error', 0], 0.0], [['Bump', 12000.0], 0.0], [['Advance', 10.0], 0.0], [['Recv', 100000], 0.0]]},
                {'cfg': d, 'client': True, 't0': 0.0, 'ops': [[['Bump', 50000.0], 0.0], [['Recalc'], 0.0]]},
                {'cfg': d, 'client': False, 't0': 0.0,
                 'ops': [[['Bump', 6000.0], 0.0], [['Recalc'], 0.0], [['Advance', 720.0], 0.0], [['Recalc'], 500.0],
                         [['Bump', -99999.0], 0.0]]}]

    def generate(self, rng, n, tier):
        for _ in range(n):
            soft = rng.choice([0, 100, 2000, 5000])
            hard = rng.choice([soft, soft + rng.choice([1, 100, 8000, 20000]), 0, soft + 8000, soft + 8000])
            cfg = {'bw': rng.choice([1e-5, 1 / 1000, 0.25]), 'soft': soft, 'hard': hard,
                   'decay': rng.choice([0, 10000 / 3600, 1.5, 40.0]), 'sleep': rng.choice([2.0, 0.5, 0]),
                   'error_base': rng.choice([100.0, 0.0, 7.5]), 'initial': rng.choice([1, 2, 20, 30])}
            ops = []
            scale = max(hard - soft, 500)
            for _ in range(rng.randrange(3, 120)):
                k = rng.choice(['Recv', 'Recv', 'Send', 'Error', 'Bump', 'Bump', 'Recalc', 'Advance'])
                extra = rng.choice([0.0, 0.0, 0.0, 50.0, -30.0, float(scale // 2)])
                if k in ('Recv', 'Send'):
                    lab = [k, rng.choice([0, 1, 100, 4096, 100000, int(scale / cfg['bw'] / 7) % 3000000])]
                elif k == 'Error':
                    lab = [k, rng.choice([0, 0, 25.0, 1000.0, float(scale // 3)])]
                elif k == 'Bump':
                    lab = [k, rng.choice([1.0, 99.0, 101.0, -50.0, -500.0, float(scale // 5), float(scale), -float(scale // 2)])]
                elif k == 'Advance':
                    lab = [k, rng.choice([0.0, 0.125, 1.0, 60.0, 720.0, 2000.0])]
                else:
                    lab = [k]
                ops.append([lab, extra])
            yield {'cfg': cfg, 'client': rng.random() < 0.15, 't0': rng.choice([0.0, 1000.0, 1.5e9]), 'ops': ops}

    def run_impl(self, case):
        if case.get('refusal'):
            return self.refusal_scenario(case)
        return run_trace(case)

    def _cfg(self, case, obs):
        c = case['cfg']
        hard = 0 if case['client'] else c['hard']
        return (f"{{| bw := {q(c['bw'])}; soft := {q(c['soft'])}; hard := {q(hard)}; decay := {q(c['decay'])}; "
                f"cost_sleep := {q(c['sleep'])}; error_base := {q(c['error_base'])}; initial := {c_Z(c['initial'])} |}}")

    def coq_case(self, case, obs):
        if case.get('refusal'):
            return None
        items = []
        for o in obs:
            lab = o['lab']
            if lab[0] in ('Recv', 'Send'):
                l = f"({lab[0]} {c_Z(lab[1])})"
            elif lab[0] in ('Error', 'Bump', 'Advance'):
                l = f"({lab[0]} {q(lab[1])})"
            else:
                l = 'Recalc'
            sn = (f"{{| o_cost := {q(o['cost'])}; o_last := {q(o['last'])}; o_frac := {q(o['frac'])}; "
                  f"o_target := {c_Z(o['target'])}; o_errors := {c_Z(o['errors'])} |}}")
            items.append(f"({l}, {q(o['extra'])}, {sn})")
        return f"({self._cfg(case, obs)}, {q(case['t0'])}, {c_list(items, 'clabel * Q * csnap')})"

    def coq_show(self, case, obs):
        t = self.coq_case(case, obs)
        return f"let '(c, t0, tr) := {t} in ctrace_firstbad c (init c t0) tr 0"

    def oracle(self, case, obs):
        if case.get('refusal'):
            return self.refusal_oracle(case, obs)
        c = case['cfg']
        hard = 0 if case['client'] else c['hard']
        limiting = hard - c['soft'] > 0
        evals = []
        prev = None
        for o in obs:
            if o['cost'] < 0:
                return 'session cost is negative'
            if not limiting:
                if o['target'] != c['initial'] or o['frac'] != 0:
                    return 'a session with hard <= soft (client) was throttled'
            lab = o['lab']
            if prev is not None and lab[0] in ('Recv', 'Send') and not o['recalced']:
                want = max(0, prev['cost'] + lab[1] * c['bw'])
                if abs(o['cost'] - want) > 1e-6 * (1 + abs(want)):
                    return 'traffic was not charged at the per-byte rate'
            if prev is not None and lab[0] == 'Error':
                if o['errors'] != prev['errors'] + 1:
                    return 'a failed request did not raise the error count'
                if not o['recalced']:
                    want = max(0, prev['cost'] + c['error_base'] + lab[1])
                    if abs(o['cost'] - want) > 1e-6 * (1 + abs(want)):
                        return ('a failure was not charged the base error cost plus the cost of its own '
                                f"(cost went from {prev['cost']} to {o['cost']}, base {c['error_base']}, specific {lab[1]})")
            if o['recalced'] and limiting:
                x = o['last'] + o['extra']
                evals.append((x, o['target']))
                if x <= c['soft'] - 1e-6 and o['target'] != c['initial']:
                    return 'concurrency reduced although the evaluated cost is below the soft limit'
                if x >= hard + 1e-6 and o['target'] != 0:
                    return 'requests still admitted although the evaluated cost reached the hard limit'
                if o['target'] > 0 and not (0 <= o['frac'] < 1):
                    return 'delay fraction outside [0,1) for an admitted request'
            prev = o
        evals.sort()
        for (x1, t1), (x2, t2) in zip(evals, evals[1:]):
            if x2 - x1 > 1e-6 and t2 > t1:
                return 'permitted concurrency is not monotone in the evaluated cost'
        return None

    # ---- refusal at the hard limit, on a real session: request / notification / batch of notifications
    @staticmethod
    def refusal_scenario(case):
        import asyncio, json
        from harness import sessions
        from aiorpcx import RPCSession
        loop = sessions.new_loop()
        try:
            ran, hooks = [], []

            gate = loop.create_future()

            class Srv(RPCSession):
                cost_decay_per_sec = 0
                initial_concurrent = 1 if case.get('queued') else RPCSession.initial_concurrent

                async def handle_request(self, request):
                    if case.get('queued') and request.method == 'slow':
                        # holds the only slot; fails at a cost of its own that takes the session over the hard limit
                        await gate
                        from aiorpcx import RPCError
                        raise RPCError(1, 'expensive failure', cost=self.cost_hard_limit + case['over'])
                    ran.append(request.method)
                    return 1

                def on_disconnect_due_to_excessive_session_cost(self):
                    hooks.append(1)

            async def main():
                proto, ft, s = sessions.attach(Srv, 'server', case['transport'])
                item = lambda i, rid: dict({'jsonrpc': '2.0', 'method': 'm%d' % i, 'params': []}, **({'id': rid} if rid is not None else {}))
                if case.get('queued'):
                    # one request in its handler, the request of interest queued at the limiter behind it
                    proto.data_received(json.dumps({'jsonrpc': '2.0', 'method': 'slow', 'params': [], 'id': 1}).encode() + b'\n')
                    await sessions.settle(8)
                else:
                    s.bump_cost(s.cost_hard_limit + case['over'])
                    s.recalc_concurrency()
                if case['shape'] == 'request':
                    payload = item(0, 7)
                elif case['shape'] == 'notification':
                    payload = item(0, None)
                elif case['shape'] == 'notification_batch':
                    payload = [item(0, None), item(1, None)]
                else:
                    payload = [item(0, None), item(1, 8)]
                proto.data_received(json.dumps(payload).encode() + b'\n')
                await sessions.settle(12)
                if case.get('queued'):
                    gate.set_result(None)
                    await sessions.settle(12)
                await asyncio.sleep(31)          # beyond any force_after
                msgs = sessions.sent_messages(ft)
                flat = [m for x in msgs for m in (x if isinstance(x, list) else [x])]
                return {'ran': ran, 'hooks': len(hooks), 'closing': ft.closing, 'lost': ft.lost,
                        'codes': [m.get('error', {}).get('code') if isinstance(m, dict) and isinstance(m.get('error'), dict) else None
                                  for m in flat],
                        'pm_done': proto._process_messages_task.done()}
            return loop.run_until_complete(main())
        finally:
            sessions.close_loop(loop)

    @staticmethod
    def violation_scenario(transport):
        import json as _json
        from harness import sessions
        from aiorpcx import session
        loop = sessions.new_loop()
        try:
            class S(session.RPCSession):
                max_errors = 1000
                cost_hard_limit = 0          # never refuse: this scenario is about the accounting
                cost_decay_per_sec = 0

                async def handle_request(self, request):
                    return 1
            proto, ft, s = sessions.attach(S, 'server', transport)
            msgs = [b'{not json', b'\xff\xfe', b'[]', b'5', b'{"jsonrpc":"2.0","method":5,"id":1}', b'{"jsonrpc":"2.0","method":"m","params":7,"id":2}',
                    b'{"jsonrpc":"2.0","result":1,"id":77}', b'{"jsonrpc":"2.0","error":{"code":1,"message":"x"},"id":null}',
                    b'[{"jsonrpc":"2.0","result":1,"id":5},{"jsonrpc":"2.0","result":2,"id":6}]',
                    b'{"jsonrpc":"2.0","result":1,"error":{"code":1,"message":"x"},"id":99}', b'{"jsonrpc":"2.0","id":98}',
                    b'[1,2,3]', b'{"jsonrpc":"2.0","result":1,"id":"never"}']

            async def main():
                await sessions.settle(3)
                steps = []
                for m in msgs:
                    e0, c0 = s.errors, s.cost
                    proto.data_received(m + b'\n')
                    await asyncio.sleep(0.05)
                    steps.append({'msg': m.decode('latin-1'), 'd_errors': s.errors - e0, 'd_cost': s.cost - c0})
                return {'steps': steps, 'error_base_cost': s.error_base_cost}
            return loop.run_until_complete(main())
        finally:
            sessions.close_loop(loop)

    @staticmethod
    def failing_requests_scenario(transport):
        """failed requests - alone, as notifications and as members of batches in every position - each counted once and
        charged the base error cost plus the cost the error carries"""
        from harness import sessions
        from aiorpcx import session, RPCError
        loop = sessions.new_loop()
        try:
            class S(session.RPCSession):
                max_errors = 100000
                cost_hard_limit = 0
                cost_decay_per_sec = 0

                async def handle_request(self, request):
                    if request.method == 'fail':
                        raise RPCError(7, 'no', cost=float(request.args[0]) if request.args else 0.0)
                    if request.method == 'boom':
                        raise ValueError('boom')
                    return 1
            proto, ft, s = sessions.attach(S, 'server', transport)

            def req(m, i, *a):
                return '{"jsonrpc":"2.0","method":"%s","params":%s%s}' % (m, list(a), '' if i is None else ',"id":%d' % i)
            F, B, O = ('fail', 15.5), ('boom', 0), ('ok', 0)
            shapes = [[F], [B], [O], [('fail', 0)], [F, O], [O, F], [F, F, F], [F, B, O], [O, O, F, O], [('fail', 15.5)] * 10, [B, B], [F, 'nF', O], ['nF'], ['nB', F]]
            steps = []

            async def main():
                await sessions.settle(3)
                i = 100
                for shape in shapes:
                    members, due_n, due_extra = [], 0, 0.0
                    for m in shape:
                        note = isinstance(m, str)
                        name, extra = (('fail', 15.5) if m == 'nF' else ('boom', 0)) if note else m
                        i += 1
                        members.append(req(name, None if note else i, *([extra] if name == 'fail' else [])))
                        if name != 'ok':
                            due_n += 1
                            due_extra += extra if name == 'fail' else 0
                    text = members[0] if len(members) == 1 else '[' + ','.join(members) + ']'
                    e0, c0 = s.errors, s.cost
                    proto.data_received(text.encode() + b'\n')
                    await asyncio.sleep(0.5)
                    steps.append({'shape': [m if isinstance(m, str) else m[0] for m in shape], 'failed': due_n, 'd_errors': s.errors - e0,
                                  'd_cost': s.cost - c0, 'due_error_cost': due_n * s.error_base_cost + due_extra})
                return {'steps': steps}
            return loop.run_until_complete(main())
        finally:
            sessions.close_loop(loop)

    @staticmethod
    def refusal_oracle(case, obs):
        if obs['ran']:
            return f"a handler ran although the session cost had reached the hard limit: {obs['ran']}"
        if obs['hooks'] < 1:
            return 'the disconnect hook did not run when a request was refused at the hard limit'
        if not (obs['closing'] or obs['lost']):
            return f"the session was not closed after refusing a {case['shape']} at the hard limit"
        # (in a mixed batch the sibling notification's close() may already have shut the transport)
        if case['shape'] == 'request' and -101 not in obs['codes']:
            return f"the refused request was not answered with the excessive-usage error (codes {obs['codes']})"
        return None

    # ---- the websocket transport: text frames are charged by their size in BYTES, like every other chunk received
    @staticmethod
    def ws_scenario(case):
        import asyncio, json
        from aiorpcx import websocket as wsmod, RPCSession
        from aiorpcx.session import SessionKind

        class FakeWS:
            def __init__(self, frames):
                self.frames = list(frames)
                self.sent = []
                self.more = asyncio.Event()
                self.closed = False

            async def recv(self):
                while not self.frames:
                    self.more.clear()
                    await self.more.wait()
                return self.frames.pop(0)

            async def send(self, data):
                self.sent.append(data)

            async def close(self):
                self.closed = True

        class Srv(RPCSession):
            cost_decay_per_sec = 0

            async def handle_request(self, request):
                return 1

        async def main():
            ws = FakeWS([])
            tr = wsmod.WSTransport(ws, Srv, SessionKind.SERVER)
            s = tr.session
            task = asyncio.ensure_future(tr.process_messages())
            rows = []
            for i, (text, as_text) in enumerate(case['frames']):
                msg = json.dumps({'jsonrpc': '2.0', 'method': 'm', 'params': [text], 'id': i}, ensure_ascii=False)
                frame = msg if as_text else msg.encode()
                c0, r0, n0 = s.cost, s.recv_size, len(ws.sent)
                ws.frames.append(frame)
                ws.more.set()
                for _ in range(20):
                    await asyncio.sleep(0)
                reply = ws.sent[n0:] if len(ws.sent) > n0 else []
                out_bytes = sum(len(x.encode() if isinstance(x, str) else x) for x in reply)
                rows.append({'in_bytes': len(msg.encode()), 'out_bytes': out_bytes, 'dcost': s.cost - c0, 'drecv': s.recv_size - r0,
                             'rate': s.bw_cost_per_byte, 'text': as_text})
            task.cancel()
            await asyncio.gather(task, return_exceptions=True)
            return {'rows': rows}
        return asyncio.run(main())

    @staticmethod
    def ws_oracle(case, obs):
        for r in obs['rows']:
            if r['drecv'] != r['in_bytes']:
                return (f"a websocket {'text' if r['text'] else 'binary'} frame of {r['in_bytes']} bytes was counted as "
                        f"{r['drecv']} bytes received")
            want = (r['in_bytes'] + r['out_bytes'] - 1) * r['rate']      # (the reply is counted unframed)
            if not (want - 1e-9 <= r['dcost'] <= want + 2 * r['rate'] + 1e-9):
                return (f"a websocket frame of {r['in_bytes']} bytes (reply {r['out_bytes']}) raised the cost by {r['dcost']}, "
                        f"the per-byte rate gives {want}")
        return None

    def extra_checks(self, ctx):
        from harness.core import Failure
        out = []
        rng = ctx['rng']
        nref = 0
        wcase = {'ws': True, 'frames': [['plain ascii', True], ['caf\u00e9 ' * 30, True], ['\u4e2d\u6587' * 40, True], ['\U0001f600' * 25, True],
                                       ['\u4e2d\u6587' * 40, False], ['x' * 500, True]]}
        try:
            wobs = self.ws_scenario(wcase)
            cl = self.ws_oracle(wcase, wobs)
            ctx['extra_evals'] += 1
            ctx['notes'].append('websocket transport (fake websocket object): text and binary frames with 1-4 byte characters charged by byte size')
        except ImportError:
            wobs, cl = None, None
            ctx['notes'].append('websocket transport not importable: skipped')
        if cl:
            out.append(Failure(wcase, wobs, cl))
        for shape in ('request', 'notification', 'notification_batch', 'mixed_batch'):
            for transport in ('rs', 'us'):
                for over in (0, 1, 5000):
                    rcase = {'refusal': True, 'shape': shape, 'transport': transport, 'over': over}
                    robs = self.refusal_scenario(rcase)
                    nref += 1
                    ctx['extra_evals'] += 1
                    cl = self.refusal_oracle(rcase, robs)
                    if cl:
                        out.append(Failure(rcase, robs, cl))
                # the cost crosses the hard limit while the request is already queued at the limiter
                for over in (0, 10000):
                    rcase = {'refusal': True, 'shape': shape, 'transport': transport, 'over': over, 'queued': True}
                    robs = self.refusal_scenario(rcase)
                    nref += 1
                    ctx['extra_evals'] += 1
                    cl = self.refusal_oracle(rcase, robs)
                    if cl:
                        out.append(Failure(rcase, robs, cl + ' (the request was queued at the limiter when the cost crossed the limit)'))
        ctx['notes'].append(f'refusal at the hard limit on a real RPCSession: {nref} scenarios (request, notification, batches; both transports)')
        # every protocol violation the peer commits is counted and charged - also the ones for which there is nothing to reply
        # (violations inside responses: to a request never sent, a diagnostic error under id null, an unsolicited response
        # batch, a malformed response under an unknown id)
        nv = 0
        for transport in ('rs', 'us'):
            vobs = self.violation_scenario(transport)
            for v in vobs['steps']:
                nv += 1
                ctx['extra_evals'] += 1
                if v['d_errors'] != 1 or v['d_cost'] < vobs['error_base_cost'] * (1 - 1e-9):
                    out.append(Failure({'violation': True, 'transport': transport, 'message': v['msg']}, v,
                                       f"a protocol violation raised the error count by {v['d_errors']} and the cost by {v['d_cost']:.3f}: "
                                       f"every protocol violation counts as one error and costs at least the base error cost ({vobs['error_base_cost']})"))
                    break
        # "a client session is never throttled or refused": the sessions the library's own connectors make (connect_rs, connect_us)
        # are client sessions whatever their cost; the ones its servers make (serve_rs, serve_us) are limited
        import asyncio as _aio
        from harness import sessions as _sessions
        from harness.vloop import FakeTransport as _FT
        from aiorpcx import rawsocket as _rs, unixsocket as _us, RPCSession as _RPCSession
        from aiorpcx.session import SessionKind as _SK
        for name, factory_of, want_client in (
                ('connect_rs', lambda: _rs.connect_rs('localhost', 1).protocol_factory, True),
                ('connect_us', lambda: _us.connect_us('/nonexistent').protocol_factory, True),
                ('serve_rs', lambda: _capture_factory(_rs.serve_rs), False),
                ('serve_us', lambda: _capture_factory(_us.serve_us), False)):
            loop = _sessions.new_loop()
            try:
                async def mk():
                    proto = factory_of()()
                    ft = _FT(proto)
                    proto.connection_made(ft)
                    s = proto.session
                    await _sessions.settle(3)
                    c0 = s._incoming_concurrency.max_concurrent
                    s.bump_cost(s.__class__.cost_hard_limit * 0.75)
                    s.recalc_concurrency()
                    mid = (s._incoming_concurrency.max_concurrent, s._cost_fraction)
                    s.bump_cost(s.__class__.cost_hard_limit * 2)
                    s.recalc_concurrency()
                    return {'kind': s.session_kind.name, 'initial': c0, 'at_three_quarters': list(mid),
                            'beyond_hard_limit': [s._incoming_concurrency.max_concurrent, s._cost_fraction]}
                o = loop.run_until_complete(mk())
            finally:
                _sessions.close_loop(loop)
            ctx['extra_evals'] += 1
            limited = o['beyond_hard_limit'][0] == 0 and o['at_three_quarters'][0] < o['initial']
            untouched = o['beyond_hard_limit'] == [o['initial'], 0.0] and o['at_three_quarters'] == [o['initial'], 0.0]
            if (want_client and (o['kind'] != 'CLIENT' or not untouched)) or (not want_client and (o['kind'] != 'SERVER' or not limited)):
                out.append(Failure({'kind': 'connector_session_kind', 'made_by': name}, o,
                                   f"a session made by {name} is {'a client session: never throttled or refused' if want_client else 'a server session: throttled between the limits, refused beyond'}"
                                   f"; observed kind {o['kind']}, concurrency {o['initial']} -> {o['at_three_quarters'][0]} -> {o['beyond_hard_limit'][0]}"))
        ctx['notes'].append('sessions made by connect_rs / connect_us / serve_rs / serve_us: kind and throttling at 75% and 200% of the hard limit')
        nf = 0
        for transport in ('rs', 'us'):
            fobs = self.failing_requests_scenario(transport)
            for v in fobs['steps']:
                nf += 1
                ctx['extra_evals'] += 1
                if v['d_errors'] != v['failed'] or v['d_cost'] < v['due_error_cost'] * (1 - 1e-9) or v['d_cost'] > v['due_error_cost'] + 5:
                    out.append(Failure({'failing_requests': True, 'transport': transport, 'shape': v['shape']}, v,
                                       f"{v['failed']} failed requests ({'a batch' if len(v['shape']) > 1 else 'alone'}) raised the error count by {v['d_errors']} and "
                                       f"the cost by {v['d_cost']:.3f}; every failed request counts as one error and costs the base error cost plus "
                                       f"the cost its error carries ({v['due_error_cost']} here, plus bandwidth)"))
                    break
        ctx['notes'].append(f'failing requests alone, as notifications and as batch members in every position through a real RPCSession: {nf} messages')
        ctx['notes'].append(f'protocol violations of every kind (with and without a reply) through a real RPCSession: {nv} messages, each counted and charged')
        # the same for a MessageSession: checksum, magic and size errors are charged the base cost plus the cost their class carries
        from harness.props.c07 import C07 as _C07
        nm = 0
        for transport in ('rs', 'us'):
            for faults in (['sum'], ['sum', 'sum', 'none', 'sum'], ['none', 'magic'], ['sum', 'size'], ['sum'] * 8):
                mcase = {'session': True, 'transport': transport, 'chunk': 1000,
                         'msgs': [{'cmd': list(b'ping'), 'payload': [1, 2, 3], 'fault': f} for f in faults]}
                mobs = _C07.session_scenario(mcase)
                nm += 1
                ctx['extra_evals'] += 1
                cl = _C07.session_oracle(mcase, mobs)
                if cl and ('cost' in cl or 'counted' in cl):
                    out.append(Failure(mcase, mobs, 'message session: ' + cl))
                    break
        ctx['notes'].append(f'framing errors through a real MessageSession, counted and charged with their error-specific cost: {nm} streams')
        sizes = [0, 1, 100, 5000, 100000] + [rng.randrange(0, 200000) for _ in range(10)]
        for n in sizes:
            case = {'kind': 'message_session_send', 'cmd': 'ping', 'payload_len': n}
            o = message_session_send(b'ping', n)
            ctx['extra_evals'] += 1
            if n >= 100:
                ctx['extra_nontrivial'] += 1
            lo = n * o['bw'] * (1 - 1e-9)
            hi = o['framed'] * o['bw'] * (1 + 1e-9)
            if not (lo <= o['cost'] <= hi) or not (n <= o['send_size'] <= o['framed']):
                out.append(Failure(case, o, 'a message sent by a MessageSession is not charged at the per-byte rate for its size'))
        return out

    def classify(self, case, obs, clause):
        if isinstance(case, dict) and case.get('kind') == 'message_session_send':
            return 'F15'
        return None

    def nontrivial(self, case, obs):
        if case.get('refusal'):
            return True
        return sum(1 for o in obs if o['recalced']) >= 2 and len({o['target'] for o in obs}) >= 2

    def histogram(self, case, obs):
        if case.get('refusal'):
            return ['refusal']
        h = ['client' if case['client'] else 'server', 'limiting' if (0 if case['client'] else case['cfg']['hard']) > case['cfg']['soft'] else 'unlimited']
        if any(o['target'] == 0 for o in obs):
            h.append('reached_refusal')
        if any(0 < o['target'] < case['cfg']['initial'] for o in obs):
            h.append('throttled')
        h.append('labels~%d' % (20 * (len(obs) // 20)))
        return h


PROP = C14()
