"""Shared by C09 and C10: the real TaskGroup driven one event-loop handle at a time
(harness/steploop.py), producing the label/snapshot trace for model/TaskGroup.v."""
import asyncio
from asyncio import CancelledError
from harness.steploop import StepLoop
from harness.core import c_N, c_nat, c_bool, c_list

POL = {'all': all, 'any': any, 'object': object, 'none': None}
POLT = {'all': 'PAll', 'any': 'PAny', 'object': 'PObject', 'none': 'PNone'}
MODET = {'join': 'MJoin', 'aexit': 'MAexit', 'aexit_exc': 'MAexitExc'}


class PT(asyncio.tasks._PyTask):
    cancel_log = None

    def cancel(self, msg=None):
        if PT.cancel_log is not None:
            PT.cancel_log.append(self)
        return super().cancel(msg)


class Real:
    def __init__(self, wait, retain=False, init=()):
        from aiorpcx.curio import TaskGroup
        self.loop = StepLoop()
        asyncio.set_event_loop(self.loop)
        self.loop.set_task_factory(lambda loop, coro: PT(coro, loop=loop))
        self.ids = {}
        self.retain = retain
        self.accepted_nd = set()          # non-daemon members the group accepted
        self.app_consumed = []            # what next_done() gave the application before the join
        self.base_cancelling = {}         # cancellations a member absorbed on its own account
        # members handed to the constructor: futures that are already finished
        self.init_ids = []
        futs = []
        for k, ent in enumerate(init):
            dm, oc = ent[0], ent[1]
            futs.append(self.mk_done(3000 + k, dm, oc, len(ent) > 2 and ent[2]))
            self.init_ids.append(3000 + k)
            if not dm:
                self.accepted_nd.add(3000 + k)
        self.g = TaskGroup(futs, wait=POL[wait], retain=retain)
        self.go, self.go2 = {}, {}
        self.J = None
        self.nspawn = 0
        self.new_spawns = []
        self.entered = False
        self.exiting = False
        self.spawn_errors = 0
        self.refused_during_join = []       # additions refused although the joining task had not finished its join

    async def member(self, tid, react):
        if react == 'veteran':
            # a member with a history: it once absorbed a cancellation of its own (what an expired and handled
            # timeout of aiorpcX leaves behind: Task.cancelling() stays non-zero for the rest of its life)
            me = asyncio.current_task()
            asyncio.tasks._PyTask.cancel(me)
            self.base_cancelling[me] = me.cancelling()
            try:
                await asyncio.sleep(0)
            except CancelledError:
                pass
            react = 'reraise'
        try:
            instr = await self.go[tid]
        except CancelledError:
            if react == 'reraise':
                raise
            if react == 'slow':
                await self.go2[tid]
                raise
            if react in ('spawn', 'spawnd'):
                self.nspawn += 1
                new = 1000 + self.nspawn
                try:
                    self.mk_member(new, 'reraise', react == 'spawnd')
                    self.new_spawns.append((new, react == 'spawnd'))
                except RuntimeError:
                    self.spawn_errors += 1
                    if self.J is not None and not self.J.done():
                        self.refused_during_join.append(new)
                raise
            if react == 'swallow':
                return 5
            raise
        if instr[0] == 'ret':
            return instr[1]
        raise KeyError

    def mk_done(self, tid, daemon, oc, foreign=False):
        """a future that has already finished with the given outcome (foreign: not made by aiorpcX's spawn - no
        _daemon attribute; such a task is an ordinary member)"""
        f = self.loop.create_future()
        if oc == 'Canc':
            f.cancel()
        elif oc == 'Exc':
            f.set_exception(KeyError())
            f.exception()            # retrieved: no 'never retrieved' report at collection
        else:
            f.set_result(None if oc == 'RetNone' else 7)
        if not (foreign and not daemon):
            f._daemon = daemon
        self.ids[f] = tid
        return f

    def add_done(self, tid, daemon, oc, foreign=False):
        """TaskGroup.add_task() of an already finished future; RuntimeError if the group refuses"""
        f = self.mk_done(tid, daemon, oc, foreign)
        try:
            try:
                self.g.add_task(f).send(None)
            except StopIteration:
                pass
        except RuntimeError:
            del self.ids[f]
            raise
        if not daemon:
            self.accepted_nd.add(tid)

    def app_next(self):
        """the application calls next_done() while a finished member is queued and the join has not begun:
        the call does not have to wait"""
        coro = self.g.next_done()
        try:
            coro.send(None)
        except StopIteration as e:
            tid = self.ids.get(e.value) if e.value is not None else None
            self.app_consumed.append(tid)
            return tid
        coro.close()
        raise RuntimeError('next_done() had to wait although a finished member was queued')

    def mk_member(self, tid, react, daemon):
        self._mk_member(tid, react, daemon)
        if not daemon:
            self.accepted_nd.add(tid)

    def _mk_member(self, tid, react, daemon):
        self.go[tid] = self.loop.create_future()
        self.go2[tid] = self.loop.create_future()
        foreign = react.startswith('foreign:')
        if foreign:
            # a task made with the event loop's own create_task (no _daemon attribute), then add_task(): an ordinary member
            react = react.split(':', 1)[1]

            async def adopt():
                await self.g.add_task(self.loop.create_task(self.member(tid, react)))
            coro = adopt()
        else:
            coro = self.g.spawn(self.member(tid, react), daemon=daemon)
        orig = self.loop.create_task

        def ct(c, **kw):
            t = orig(c, **kw)
            self.ids[t] = tid
            return t
        self.loop.create_task = ct
        prev = asyncio.events._get_running_loop()
        try:
            asyncio.events._set_running_loop(self.loop)
            try:
                coro.send(None)
            except StopIteration:
                pass
            except RuntimeError:
                # refused by the group: the task was created but is not a member; get rid of it
                for t in [t for t, i in self.ids.items() if i == tid]:
                    t.cancel()
                    del self.ids[t]
                raise
        finally:
            asyncio.events._set_running_loop(prev)
            self.loop.create_task = orig

    def start_join(self, mode, wrap=()):
        g = self.g
        orig_join = g.join

        async def marked_join():
            self.entered = True
            return await orig_join()
        g.join = marked_join

        async def j():
            # optionally inside nested timeout blocks whose deadlines are never reached (C12)
            from contextlib import AsyncExitStack
            from aiorpcx import timeout_after, ignore_after
            async with AsyncExitStack() as stack:
                for w in wrap:
                    await stack.enter_async_context(timeout_after(10 ** 6) if w == 'timeout' else ignore_after(10 ** 6))
                await body()

        async def body():
            if mode == 'join':
                await g.join()
            elif mode == 'aexit':
                async with g:
                    self.exiting = True
            elif mode == 'aexit_body':
                # the joining task is still in the BODY of `async with group` (C12: that is where the cancellation lands)
                async with g:
                    try:
                        await self.loop.create_future()
                    finally:
                        self.exiting = True
            else:
                try:
                    async with g:
                        self.exiting = True
                        raise KeyError
                except KeyError:
                    pass
        self.J = self.loop.create_task(j())
        self.ids[self.J] = 0

    def classify(self, h):
        cb = h._callback
        name = getattr(cb, '__qualname__', repr(cb))
        owner = getattr(cb, '__self__', None)
        if owner in self.ids and ('__step' in name or '__wakeup' in name):
            return ('step', self.ids[owner])
        if name == 'TaskGroup._on_done':
            return ('ondone', self.ids[h._args[0]])
        if 'pop_task' in name:
            return ('pop', self.ids[h._args[0]])
        return ('other', name)

    def task_of(self, tid):
        return next(t for t, i in self.ids.items() if i == tid)

    def outcome(self, tid):
        t = self.task_of(tid)
        if not t.done():
            return None
        if t.cancelled():
            return 'Canc'
        if t.exception() is not None:
            return 'Exc'
        return 'RetNone' if t.result() is None else 'RetVal'

    def snapshot(self):
        g = self.g
        q = []
        for h in self.loop._ready:
            if h._cancelled:
                continue
            c = self.classify(h)
            if c[0] == 'step' and c[1] == 0:
                q.append(['J'])
            elif c[0] == 'ondone':
                q.append(['ondone', c[1]])
            elif c[0] == 'pop':
                q.append(['pop', c[1]])
        tasks = sorted(self.ids.get(t, -1) for t in g.tasks)
        want = sorted(self.accepted_nd) if self.retain else sorted(self.ids[t] for t in g._pending)
        return {'tasks_ok': tasks == want, 'tasks': tasks, 'appconsumed': list(self.app_consumed),
                'pending': sorted(self.ids[t] for t in g._pending), 'daemons': sorted(self.ids[t] for t in g.daemons),
                'doneq': [self.ids[t] for t in g._done], 'semv': g._semaphore._value, 'joined': g.joined,
                'completed': self.ids.get(g.completed) if g.completed is not None else None,
                'finished': sorted(i for t, i in self.ids.items() if i != 0 and t.done()),
                'queue': q, 'jdone': bool(self.J is not None and self.J.done()),
                'jcancelled': bool(self.J is not None and self.J.done() and self.J.cancelled()),
                'cancelreq': sorted(i for t, i in self.ids.items() if i != 0 and not t.done()
                                    and t.cancelling() > self.base_cancelling.get(t, 0))}


def run_case(case):
    R = Real(case['policy'], case.get('retain', False), case.get('init', ()))
    try:
        trace = []
        oracle = {'join_end': None}
        for k, ent in enumerate(case.get('init', ())):
            dm, oc = ent[0], ent[1]
            trace.append([['spawn', 3000 + k, dm, oc], R.snapshot() if k == len(case['init']) - 1 else None])
        for i, m in enumerate(case['members']):
            tid = i + 1
            R.mk_member(tid, m['react'], m['daemon'])
            trace.append([['spawn', tid, m['daemon']], R.snapshot()])
        # the members' first steps (run up to their first await) carry no label
        started = False
        reacts = {i + 1: m['react'] for i, m in enumerate(case['members'])}
        waiting2 = set()
        sups = []

        def live():
            return sorted(i for t, i in R.ids.items() if i != 0 and not t.done())
        steps = 0
        for act in case['actions']:
            steps += 1
            kind = act[0]
            label = None
            if kind == 'start':
                if started:
                    continue
                started = True
                R.start_join(case['mode'], case.get('wrap', ()))
                label = ['start']
            elif kind == 'finish':
                cand = [t for t in live() if not R.go[t].done()]
                if not cand:
                    continue
                t = cand[act[1] % len(cand)]
                R.go[t].set_result(act[2])
            elif kind == 'finish2':
                cand = [t for t in live() if R.go[t].cancelled() is False and not R.go2[t].done()
                        and reacts.get(t) == 'slow']
                if not cand:
                    continue
                R.go2[cand[act[1] % len(cand)]].set_result(None)
            elif kind == 'spawn':
                # somebody outside the group adds a member at this instant (refused once the group has joined)
                nspawn_ext = sum(1 for l, _ in trace if l[0] == 'spawn' and l[1] >= 2000)
                new = 2000 + nspawn_ext
                try:
                    R.mk_member(new, 'reraise', act[1])
                    reacts[new] = 'reraise'
                except RuntimeError:
                    if R.J is None or not R.J.done():
                        R.refused_during_join.append(new)
                label = ['spawn', new, act[1]]
            elif kind == 'addfin':
                # somebody adds a task that has already finished (add_task)
                new = 4000 + sum(1 for l, _ in trace if l[0] == 'spawn' and 4000 <= l[1] < 5000)
                try:
                    R.add_done(new, act[1], act[2], len(act) > 3 and act[3])
                except RuntimeError:
                    pass
                label = ['spawn', new, act[1], act[2]]
            elif kind == 'appnext':
                if R.entered or R.exiting or not R.g._done or (R.J is not None and R.J.done()):
                    continue       # (the model has this call only before the joining task has run)
                R.app_next()
                label = ['appnext']
            elif kind == 'cancelrem':
                # somebody else (a supervisor task) calls cancel_remaining() on the group; the model has no such label:
                # runs with this action are judged by the oracle only
                sups.append(R.loop.create_task(R.g.cancel_remaining()))
            elif kind == 'abandonrem':
                # ... and gives up waiting for it (a timeout around the call, or the supervisor being cancelled)
                for s_ in sups:
                    if not s_.done():
                        s_.cancel()
            elif kind == 'cancelJ':
                if not started or R.J.done():
                    continue
                R.J.cancel()
                label = ['cancelJ']
            elif kind == 'cancelM':
                cand = live()
                if not cand:
                    continue
                t = cand[act[1] % len(cand)]
                R.task_of(t).cancel()
                label = ['cancelM', t]
            elif kind == 'tick':
                if not any(not h._cancelled for h in R.loop._ready):
                    continue
                PT.cancel_log = []
                R.new_spawns = []
                before_done = {i for t, i in R.ids.items() if t.done()}
                h = R.loop.tick()
                order = [R.ids[t] for t in PT.cancel_log if t in R.ids]
                PT.cancel_log = None
                if h is None:
                    continue
                c = R.classify(h)
                for new, dm in R.new_spawns:
                    reacts[new] = 'reraise'
                    trace.append([['spawn', new, dm], None])
                if c[0] == 'step' and c[1] == 0:
                    label = ['run', ['J'], order, R.entered]
                elif c[0] == 'ondone':
                    label = ['run', ['ondone', c[1]], []]
                elif c[0] == 'pop':
                    label = ['run', ['pop', c[1]], []]
                elif c[0] == 'step':
                    if c[1] not in before_done and R.task_of(c[1]).done():
                        label = ['finish', c[1], R.outcome(c[1])]
            if label is not None:
                trace.append([label, R.snapshot()])
                if started and R.J.done() and oracle['join_end'] is None:
                    jt = R.J
                    oracle['join_end'] = {
                        'entered': R.entered, 'exiting': R.exiting, 'undone': live(), 'joined': R.g.joined,
                        'joiner_cancelled': jt.cancelled(),
                        'joiner_exc': None if jt.cancelled() or jt.exception() is None else type(jt.exception()).__name__,
                        'at': len(trace)}
        # try to add after the join ended
        late = None
        if oracle['join_end'] is not None and oracle['join_end']['entered'] and (oracle['join_end']['joined'] or not oracle['join_end']['undone']):
            late = 'refused'
            for k, dm in enumerate((False, True)):
                try:
                    R.mk_member(5000 + k, 'reraise', dm)
                    late = 'added'
                except RuntimeError:
                    pass
        g = R.g
        props = None
        if g.joined:
            def safe(f):
                try:
                    return ['val', f()]
                except BaseException as e:
                    return ['raises', type(e).__name__]
            props = {'result': safe(lambda: g.result),
                     'exception': safe(lambda: None if g.exception is None else type(g.exception).__name__)}
        res = {'trace': trace, 'props': props, 'join_end': oracle['join_end'], 'late_add': late,
               'outcomes': {str(i): R.outcome(i) for t, i in R.ids.items() if i != 0 and i < 5000},
               'completed': R.ids.get(g.completed) if g.completed is not None else None,
               'joined': g.joined, 'spawn_errors': R.spawn_errors, 'refused_during_join': R.refused_during_join, 'loop_errors': ['%s %r' % (c.get('message'), c.get('exception')) for c in R.loop.exc],
               'retained': None}
        if g.joined and case.get('retain'):
            res['retained'] = sorted(R.ids.get(t, -1) for t in g.tasks) == sorted(R.accepted_nd)
        # the state in which the scenario ends
        fs = R.snapshot()
        res['final'] = {'started': started, 'jdone': fs['jdone'], 'quiescent': not any(not h._cancelled for h in R.loop._ready),
                        'entered': R.entered, 'exiting': R.exiting,
                        'live_not_requested': [t for t in live() if t not in fs['cancelreq']], 'cancelreq': fs['cancelreq']}
        # let everything finish so that no task is left behind
        for t in list(R.ids):
            if not t.done():
                t.cancel()
        for f in list(R.go2.values()):
            if not f.done():
                f.set_result(None)
        R.loop.drain(20000)
        return res
    finally:
        asyncio.set_event_loop(None)


# ---------------------------------------------------------------- Coq terms
def handle_term(h):
    if h[0] == 'J':
        return 'HJoiner'
    return f"(HCb ({'OnDone' if h[0] == 'ondone' else 'Pop'} {c_N(h[1])}))"


def label_term(l):
    k = l[0]
    if k == 'spawn':
        return f"(LSpawn {c_N(l[1])} {c_bool(l[2])} {'None' if len(l) < 4 or l[3] is None else '(Some ' + l[3] + ')'})"
    if k == 'finish':
        return f"(LFinish {c_N(l[1])} {l[2]})"
    if k == 'cancelM':
        return f"(LCancelMember {c_N(l[1])})"
    if k == 'start':
        return 'LStart'
    if k == 'appnext':
        return 'LAppNext'
    if k == 'cancelJ':
        return 'LCancelJoiner'
    if k == 'run':
        return f"(LRun {handle_term(l[1])} {c_list([c_N(x) for x in l[2]], 'N')})"
    raise ValueError(k)


def snap_term(s):
    nl = lambda xs: c_list([c_N(x) for x in xs], 'N')
    comp = '(@None N)' if s['completed'] is None else f"(Some {c_N(s['completed'])})"
    return (f"{{| s_pending := {nl(s['pending'])}; s_daemons := {nl(s['daemons'])}; s_doneq := {nl(s['doneq'])}; "
            f"s_semv := {c_nat(s['semv'])}; s_joined := {c_bool(s['joined'])}; s_completed := {comp}; "
            f"s_finished := {nl(s['finished'])}; s_queue := {c_list([handle_term(h) for h in s['queue']], 'handle')}; "
            f"s_jdone := {c_bool(s['jdone'])}; s_cancelreq := {nl(s['cancelreq'])}; s_jcancelled := {c_bool(s['jcancelled'])}; "
            f"s_appconsumed := {nl(s.get('appconsumed', []))} |}}")


def coq_case(case, obs):
    if any(a[0] in ('cancelrem', 'abandonrem') for a in case['actions']) or case['mode'] not in MODET:
        return None
    out = []
    for l, sn in obs['trace']:
        # a spawn performed inside a member's step has no snapshot of its own
        out.append(f"({label_term(l)}, {'(@None snap)' if sn is None else '(Some ' + snap_term(sn) + ')'})")
    return f"({POLT[case['policy']]}, {MODET[case['mode']]}, {c_list(out, 'label * option snap')})"


HEADER = 'From AV Require Import Base TaskGroup.'
CASE_TYPE = 'policy * jmode * list (label * option snap)'


def gen_case(rng, opts=None):
    opts = opts or {}
    n = rng.randint(1, 4)
    nd = rng.randint(0, 2)
    reacts = opts.get('reacts', ['reraise', 'reraise', 'reraise', 'slow', 'swallow', 'spawn', 'spawnd', 'veteran'])
    members = [{'react': rng.choice(reacts), 'daemon': i >= n} for i in range(n + nd)]
    for mb in members:
        if not mb['daemon'] and rng.random() < 0.12:
            mb['react'] = 'foreign:' + mb['react']
    actions = []
    ncancel = rng.choice([0, 0, 1, 2])
    for _ in range(rng.randrange(10, 120)):
        r = rng.random()
        if r < 0.12:
            actions.append(['start'])
        elif r < 0.32:
            actions.append(['finish', rng.randrange(8), rng.choice([['ret', None], ['ret', 1], ['exc'], ['ret', rng.choice([0, '', False, 2])]])])
        elif r < 0.38:
            actions.append(['finish2', rng.randrange(8)])
        elif r < 0.86:
            actions.append(['tick'])
        elif r < 0.92 and ncancel:
            ncancel -= 1
            actions.append(['cancelJ'])
        elif r < 0.96:
            actions.append(['cancelM', rng.randrange(8)])
        elif r < 0.975:
            actions.append(['spawn', rng.random() < 0.3])
        elif r < 0.982:
            actions.append(['appnext'])
        elif r < 0.99:
            actions.append(['addfin', rng.random() < 0.25, rng.choice(['RetNone', 'RetVal', 'RetVal', 'Exc', 'Canc']), rng.random() < 0.3])
        else:
            actions.append(['tick'])
    if rng.random() < 0.25:
        # the application looks at the first finishers itself (next_done) before it joins
        k = rng.randrange(0, max(1, len(actions) // 2))
        pre = [a for a in actions[:k] if a[0] != 'start']
        m = rng.randrange(1, 4)
        first = [x for _ in range(m) for x in (['finish', rng.randrange(8), rng.choice([['ret', 1], ['ret', None], ['exc']])],
                                               ['tick'], ['tick'], ['tick'])]
        actions = pre + first + [['appnext']] * rng.randrange(1, 4) + actions[k:]
    actions += [['start']] + [['tick']] * 3
    init = [[rng.random() < 0.25, rng.choice(['RetNone', 'RetVal', 'RetVal', 'Exc', 'Canc']), rng.random() < 0.3]
            for _ in range(rng.choice([0, 0, 0, 0, 1, 2]))]
    if not opts.get('reacts') and rng.random() < 0.1:
        # a group that holds daemons only, left (or joined) early: nothing to wait for, but the daemons are members too
        for mb in members:
            mb['daemon'] = True
            mb['react'] = mb['react'].replace('foreign:', '')
        actions = [['tick']] * rng.randrange(0, 4) + [['start']] + [a for a in actions if a[0] != 'start'] + [['tick']] * 30
    return {'policy': rng.choice(['all', 'all', 'any', 'object', 'none']), 'retain': rng.random() < 0.4, 'init': init,
            'mode': rng.choice(['join', 'join', 'aexit', 'aexit_exc']), 'members': members, 'actions': actions}
