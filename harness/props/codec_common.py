"""Shared by C04/C05/C01/C02: drivers and canonicalisation for the real JSON-RPC codec."""
import json
from harness import jsonvals as jv
from harness.core import c_Z, c_bytes, c_list

PROTO_TERM = {'v1': 'V1', 'v2': 'V2', 'loose': 'Loose', 'auto': 'V2'}


def proto_class(name):
    from aiorpcx import jsonrpc
    return {'v1': jsonrpc.JSONRPCv1, 'v2': jsonrpc.JSONRPCv2, 'loose': jsonrpc.JSONRPCLoose,
            'auto': jsonrpc.JSONRPCAutoDetect}[name]


def observe_decode(pname, msg):
    """canonical outcome of message_to_item"""
    from aiorpcx import jsonrpc
    P = proto_class(pname)
    try:
        item, rid = P.message_to_item(msg)
    except jsonrpc.ProtocolError as e:
        if e.error_message is not None:
            try:
                reply = json.loads(e.error_message.decode())
            except Exception:
                reply = None
            return {'kind': 'errsend', 'code': e.code, 'reply': jv.to_plain(reply),
                    'reply_ascii_line': all(32 <= b < 127 for b in e.error_message)}
        return {'kind': 'errresp', 'code': e.code, 'id': jv.to_plain(e.response_msg_id)}
    except BaseException as e:
        return {'kind': 'escape', 'exc': type(e).__name__}
    if isinstance(item, jsonrpc.Request):
        return {'kind': 'req', 'method': jv.to_plain(item.method), 'args': jv.to_plain(item.args), 'id': jv.to_plain(rid)}
    if isinstance(item, jsonrpc.Notification):
        return {'kind': 'notif', 'method': jv.to_plain(item.method), 'args': jv.to_plain(item.args)}
    if isinstance(item, jsonrpc.Response):
        r = item.result
        if isinstance(r, jsonrpc.RPCError):
            return {'kind': 'resp', 'err': [jv.to_plain(r.code), jv.to_plain(r.message)], 'id': jv.to_plain(rid)}
        return {'kind': 'resp', 'res': jv.to_plain(r), 'id': jv.to_plain(rid)}
    if isinstance(item, list):
        return {'kind': 'batch', 'payloads': jv.to_plain(item)}
    return {'kind': 'escape', 'exc': 'unknown item ' + type(item).__name__}


def dres_term(o):
    fp = jv.from_plain
    k = o['kind']
    if k == 'escape':
        return 'DEscape'
    if k == 'errsend':
        reply = fp(o['reply'])
        rid = reply.get('id') if isinstance(reply, dict) else None
        return f"(DRes (MErrSend {c_Z(o['code'])} {jv.json_term(rid)}))"
    if k == 'errresp':
        return f"(DRes (MErrResp {c_Z(o['code'])} {jv.json_term(fp(o['id']))}))"
    if k == 'req':
        return f"(DRes (MItem (IRequest {jv.text_term(fp(o['method']))} {jv.json_term(fp(o['args']))} {jv.json_term(fp(o['id']))})))"
    if k == 'notif':
        return f"(DRes (MItem (INotification {jv.text_term(fp(o['method']))} {jv.json_term(fp(o['args']))})))"
    if k == 'resp':
        if 'err' in o:
            code, msg = fp(o['err'][0]), fp(o['err'][1])
            rv = f"(RError {jv.json_term(code)} {jv.text_term(msg)})"
        else:
            rv = f"(RResult {jv.json_term(fp(o['res']))})"
        return f"(DRes (MItem (IResponse {rv} {jv.json_term(fp(o['id']))})))"
    if k == 'batch':
        return "(DRes (MItem (IBatch %s)))" % c_list([jv.json_term(x) for x in fp(o['payloads'])], 'json')
    raise ValueError(k)


def has_noncanonical_float(msg):
    """the model keeps a float as the opaque token repr(x); a JSON text whose float token is written
    differently (1e2, 10000e0000, 1.50) is outside the model's float oracle: such a message is decided by
    the oracles on the real code only"""
    import json
    toks = []

    def pf(t):
        toks.append(t)
        return float(t)
    try:
        json.loads(bytes(msg).decode('utf-8', 'surrogatepass'), parse_float=pf)
    except Exception:
        return False
    return any(repr(float(t)) != t for t in toks)


HEADER = 'From AV Require Import Base Utf8 Json Codec.'

MEMBER_VALUES = {
    'jsonrpc': ['2.0', '1.0', '2', 2.0, 2, None, [], {}, ['2.0'], {'v': 2}, True],
    'method': ['m', '', 'a.b', 5, None, ['m'], True],
    'params': [[], [1, 'x'], {}, {'a': 1}, None, 'str', 7, True, [[]]],
    'id': [0, 1, -5, 'abc', '', None, 1.5, True, [1], {'a': 1}, 10 ** 25],
    'result': [None, 0, 'ok', [1, 2], {'x': None}, False, 2.5],
    'error': [None, 'boom', 7, True, 0, '', False, [], 0.0, {'code': 1, 'message': 'm'}, {'code': '1', 'message': 'm'}, {'code': 1},
              {'message': 'only'}, {'code': True, 'message': ''}, {}, [1], 1.5, {'code': 1, 'message': 5}],
}


def gen_payload(rng):
    d = {}
    order = list(MEMBER_VALUES)
    rng.shuffle(order)
    for k in order:
        if rng.random() < 0.45:
            d[k] = rng.choice(MEMBER_VALUES[k])
    if rng.random() < 0.1:
        d[jv.gen_str(rng)] = jv.gen_value(rng, 1)
    return d


def gen_valid_payload(rng, jv_mod=None):
    """a well-formed request / notification / response in one of the wire formats, possibly with ONE member perturbed"""
    from harness import jsonvals as jv
    two = rng.random() < 0.6
    kind = rng.choice(['req', 'req', 'notif', 'res', 'err'])
    rid = rng.choice([0, 1, 7, 'abc', 2.5, 2 ** 40, -1])
    d = {'jsonrpc': '2.0'} if two else {}
    if kind in ('req', 'notif'):
        d['method'] = rng.choice(['m', 'server.version', jv.gen_str(rng)])
        args = rng.choice([[], [1, 'a'], [jv.gen_value(rng, 2)], {'k': 1}, {}])
        if two:
            if args != [] or rng.random() < 0.3:
                d['params'] = args
        else:
            d['params'] = args if isinstance(args, list) else [1]
        if kind == 'req':
            d['id'] = rid
        elif not two:
            d['id'] = None
    else:
        d['id'] = rid
        if kind == 'res':
            d['result'] = jv.gen_value(rng, 2)
            if not two:
                d['error'] = None
        else:
            d['error'] = {'code': rng.choice([1, -32601, -5]), 'message': rng.choice(['bad', '', jv.gen_str(rng)])}
            if not two:
                d['result'] = None
    if rng.random() < 0.35:
        k = rng.choice(list(MEMBER_VALUES))
        if rng.random() < 0.3:
            d.pop(k, None)
        else:
            d[k] = rng.choice(MEMBER_VALUES[k])
    items = list(d.items())
    rng.shuffle(items)
    return dict(items)


MALFORMED = [b'', b' ', b'{', b'}', b'[', b'[1,]', b'{"a":1,}', b'{"a"}', b'{1:2}', b'nul', b'tru', b'01', b'1.', b'.5', b'+1',
             b'-', b'1e', b'1e+', b'nan', b'NaN', b'Infinity', b'-Infinity', b'-Inf', b'"abc', b'"a\x01b"', b'"\\x41"',
             b'"\\u12"', b'"\\ud800\\u0041"', b'"\\ud83d\\ude00"', b'"\\uDC00"', b'1 2', b'{}{}', b'[] x', b'\xef\xbb\xbf{}',
             b'\xff', b'\xc3', b'\xed\xa0\x80', b'\xf4\x90\x80\x80', b'\xc0\x80', b' \t\r\n{ "method" : "m" , "id" : 1 } \n',
             b'{"id":1,"id":2,"result":0}', b'{"jsonrpc":"2.0","method":"m","method":5,"id":3}', b'"\\/"', b'[[[[[[[[[[1]]]]]]]]]]',
             b'-0', b'-0.0', b'1E5', b'0e0', b'{"a":{"b":{"c":[{"d":null}]}}}', b'\x00', b'[\x0c]', b'[\xc2\xa0]', b'12345678901234567890123']
