"""C07 - Bitcoin framer: round trip, checksum, sync (model/Bitcoin.v)."""
import asyncio, hashlib, struct
from harness.core import Prop, c_N, c_bytes, c_list

MAGIC = bytes.fromhex('e3e1f3e8')


def dsha4(p):
    return hashlib.sha256(hashlib.sha256(p).digest()).digest()[:4]


def ref_frame(magic, cmd, payload):
    """independent framing per the Bitcoin wire format"""
    return magic + cmd + bytes(12 - len(cmd)) + struct.pack('<I', len(payload)) + dsha4(payload) + payload


def ref_parse(stream, magic, maxp, maxb):
    """independent reference reader (specification of the wire format + limits)"""
    out = []
    while len(stream) >= 24:
        h, rest = stream[:24], stream[24:]
        cmd = h[4:16].rstrip(b'\0')
        n = int.from_bytes(h[16:20], 'little')
        if h[:4] != magic:
            out.append(['magic']); stream = rest; continue
        if n > maxp and not (cmd == b'block' and n <= maxb):
            out.append(['oversized']); stream = rest; continue
        if len(rest) < n:
            break
        p, stream = rest[:n], rest[n:]
        out.append(['ok', list(cmd), list(p)] if dsha4(p) == h[20:24] else ['checksum'])
    return out


async def _drive(magic, maxp, maxb, chunks):
    from aiorpcx import framing

    class F(framing.BitcoinFramer):
        max_payload_size = maxp
    f = F(magic=magic, max_block_size=maxb)
    for c in chunks:
        f.received_bytes(bytes(c))
    out = []
    while True:
        t = asyncio.ensure_future(f.receive_message())
        for _ in range(3):
            await asyncio.sleep(0)
        if not t.done():
            t.cancel()
            try:
                await t
            except BaseException:
                pass
            return out
        try:
            cmd, payload = t.result()
            out.append(['ok', list(cmd), list(payload)])
        except framing.BadMagicError:
            out.append(['magic'])
        except framing.OversizedPayloadError:
            out.append(['oversized'])
        except framing.BadChecksumError:
            out.append(['checksum'])


def cut(rng, stream, style):
    n = len(stream)
    if style == 'one':
        return [stream]
    if style == 'bytes':
        return [stream[i:i + 1] for i in range(n)]
    if style == 'two':
        k = rng.randrange(n + 1)
        return [stream[:k], stream[k:]]
    chunks, i = [], 0
    while i < n:
        k = rng.choice([0, 1, 2, 3, 7, 11, 23, 24, 25, 40, 100])
        chunks.append(stream[i:i + k]); i += k
    return chunks


CMDS = [b'', b'v', b'ver', b'block', b'blockx', b'a' * 12, b'pi\0ng', b'\0x', b'inv', b'a\0b', b'\0a', b'get\0\0data', b'block\0x']


class C07(Prop):
    id = 'C07'
    coq_header = ('From AV Require Import Base Sha256 Bitcoin Gen_framing.\n'
                  'Definition ok := c07_ok sha256d_4.\n'
                  'Definition PP (m : bytes) (a b : N) : params := {| p_magic := m; p_max_payload := a; '
                  'p_max_block := b; p_block_cmd := btc_block_command |}.')
    case_type = 'c07case'
    check_fn = 'ok'
    sizes = {'quick': 1500, 'thorough': 30000}
    shard = 100
    rule = ('frame(): commands of 0..14 bytes incl. embedded/trailing NUL, payloads 0..120 bytes, several magics; '
            'reader: sequences of <=5 framed messages, chunkings (one chunk / every byte / every two-way split / random), '
            'single- and multi-bit flips in each header field and the payload, declared lengths at limit, limit+1, '
            'block limit, block limit+1 (limits patched small), trailing garbage; non-trivial = reader case with >=2 chunks '
            'and >=1 message; distinct = distinct case')
    trusted = ('hashlib.sha256 (the model is instantiated with its own executable SHA-256, compared on every payload)',)

    def corpus(self):
        return [
            {'kind': 'frame', 'magic': list(MAGIC), 'maxp': 2000000, 'maxb': 128000000, 'cmd': [97, 98, 0], 'payload': [1]},
            {'kind': 'frame', 'magic': list(MAGIC), 'maxp': 2000000, 'maxb': 128000000, 'cmd': [97] * 13, 'payload': []},
            {'kind': 'run', 'magic': list(MAGIC), 'maxp': 50, 'maxb': 120,
             'chunks': [list(ref_frame(MAGIC, b'block', bytes(100)))], 'meta': {'msgs': [[list(b'block'), [0] * 100]], 'corrupt': None}},
            {'kind': 'run', 'magic': list(MAGIC), 'maxp': 50, 'maxb': 120,
             'chunks': [list(ref_frame(MAGIC, b'blocks', bytes(51)))], 'meta': {'msgs': None, 'corrupt': 'len'}},
        ] + self.big_cases()

    @staticmethod
    def big_cases():
        """payloads of 64 KiB and more, arriving in pieces whose boundaries fall at every interesting place:
        header apart, the last byte of the payload the last byte of a chunk, the next message glued on"""
        out = []
        # one message arriving in several hundred pieces (a receive that has to wait for more than 256 chunks)
        for size, step in ((300, 1), (700, 1), (1500, 5), (900, 3)):
            pl = bytes((i * 11 + size) % 256 for i in range(size))
            stream = ref_frame(MAGIC, b'tx', pl) + ref_frame(MAGIC, b'ping', b'after')
            out.append({'kind': 'run', 'magic': list(MAGIC), 'maxp': 2000000, 'maxb': 128000000, 'big': True,
                        'chunks': [list(stream[i:i + step]) for i in range(0, len(stream), step)],
                        'meta': {'msgs': [[list(b'tx'), list(pl)], [list(b'ping'), list(b'after')]], 'corrupt': None}})
        for size in (65535, 65536, 70000, 131075):
            p1 = bytes((i * 7 + size) % 256 for i in range(size))
            p2 = b'tail'
            f1, f2 = ref_frame(MAGIC, b'tx', p1), ref_frame(MAGIC, b'ping', p2)
            stream = f1 + f2
            n1 = len(f1)
            for cuts in ([n1], [24, n1], [24, 24 + size // 2, n1], [10, 24 + 1000, 24 + size - 1, n1], [24 + size // 3, n1 + 5],
                         [24, 24 + 65536, n1] if size > 65536 else [24, 24 + size - 3, n1], []):
                idx = [0] + sorted(set(c for c in cuts if 0 < c < len(stream))) + [len(stream)]
                chunks = [stream[a:b] for a, b in zip(idx, idx[1:])]
                out.append({'kind': 'run', 'magic': list(MAGIC), 'maxp': 2000000, 'maxb': 128000000,
                            'chunks': [list(c) for c in chunks], 'big': True,
                            'meta': {'msgs': [[list(b'tx'), list(p1)], [list(b'ping'), list(p2)]], 'corrupt': None}})
        return out

    def generate(self, rng, n, tier):
        for i in range(n):
            magic = rng.choice([MAGIC, MAGIC, bytes(4), bytes(rng.randrange(256) for _ in range(4))])
            maxp, maxb = rng.choice([(50, 120), (50, 120), (2000000, 128000000), (0, 0), (10, 5)])
            if i % 5 == 0:
                cmd = rng.choice(CMDS + [bytes(rng.randrange(256) for _ in range(rng.randrange(15)))])
                if rng.random() < 0.15:
                    cmd = cmd[:11] + b'\0'
                yield {'kind': 'frame', 'magic': list(magic), 'maxp': maxp, 'maxb': maxb, 'cmd': list(cmd),
                       'payload': [rng.randrange(256) for _ in range(rng.choice([0, 1, 5, 55, 64, 120]))]}
                continue
            msgs = []
            for _ in range(rng.randrange(1, 5)):
                cmd = rng.choice(CMDS)
                lim = maxb if cmd == b'block' and maxb > maxp else maxp
                ln = rng.choice([0, 1, 7, 30, min(lim, 130), min(lim, 130), max(0, min(lim, 130) - 1)])
                msgs.append((cmd, bytes(rng.randrange(256) for _ in range(ln))))
            frames = [ref_frame(magic, c, p) for c, p in msgs]
            meta = {'msgs': [[list(c.rstrip(b'\0')), list(p)] for c, p in msgs], 'corrupt': None}
            r = rng.random()
            if r < 0.55:
                k = rng.randrange(len(frames))
                fr = bytearray(frames[k])
                region = rng.choice(['magic', 'cmd', 'len', 'sum', 'payload', 'lenset'])
                lo, hi = {'magic': (0, 4), 'cmd': (4, 16), 'len': (16, 20), 'sum': (20, 24),
                          'payload': (24, len(fr)), 'lenset': (16, 20)}[region]
                if region == 'lenset':
                    v = rng.choice([maxp, maxp + 1, maxb, maxb + 1, 0, 2 ** 32 - 1, len(fr) - 24 + 1])
                    fr[16:20] = struct.pack('<I', v & 0xffffffff)
                elif hi > lo:
                    for _ in range(rng.choice([1, 1, 2, 5])):
                        pos = rng.randrange(lo, hi)
                        fr[pos] ^= 1 << rng.randrange(8)
                else:
                    region = None
                if region and bytes(fr) != frames[k]:
                    frames[k] = bytes(fr)
                    meta['corrupt'] = region
                    meta['index'] = k
            stream = b''.join(frames)
            if rng.random() < 0.3:
                stream += bytes(rng.randrange(256) for _ in range(rng.randrange(30)))
                meta['garbage'] = True
            chunks = cut(rng, stream, rng.choice(['one', 'bytes', 'two', 'two', 'rand', 'rand']))
            yield {'kind': 'run', 'magic': list(magic), 'maxp': maxp, 'maxb': maxb,
                   'chunks': [list(c) for c in chunks], 'meta': meta}

    def run_impl(self, case):
        if case.get('session'):
            return self.session_scenario(case)
        from aiorpcx import framing
        magic = bytes(case['magic'])
        if case['kind'] == 'frame':
            f = framing.BitcoinFramer(magic=magic)
            try:
                return {'framed': list(f.frame((bytes(case['cmd']), bytes(case['payload']))))}
            except ValueError:
                return {'framed': None}
        return {'results': asyncio.run(_drive(magic, case['maxp'], case['maxb'], case['chunks']))}

    def _P(self, case):
        return f"(PP {c_bytes(bytes(case['magic']))} {c_N(case['maxp'])} {c_N(case['maxb'])})"

    def coq_case(self, case, obs):
        if case.get('session') or case.get('big'):
            return None          # (big: hundreds of kB per case - the reference reader in the oracle decides)
        if case['kind'] == 'frame':
            o = 'None' if obs['framed'] is None else f"(Some {c_bytes(bytes(obs['framed']))})"
            return f"CFrame {self._P(case)} {c_bytes(bytes(case['cmd']))} {c_bytes(bytes(case['payload']))} {o}"
        rs = []
        for r in obs['results']:
            rs.append({'magic': 'BadMagic', 'oversized': 'Oversized', 'checksum': 'BadChecksum'}.get(r[0]) or
                      f"(Delivered {c_bytes(bytes(r[1]))} {c_bytes(bytes(r[2]))})")
        chunks = c_list([c_bytes(bytes(c)) for c in case['chunks']], 'bytes')
        return f"CRun {self._P(case)} {chunks} {c_list(rs, 'result')}"

    def coq_show(self, case, obs):
        if case['kind'] == 'frame':
            return f"frame sha256d_4 {self._P(case)} {c_bytes(bytes(case['cmd']))} {c_bytes(bytes(case['payload']))}"
        chunks = c_list([c_bytes(bytes(c)) for c in case['chunks']], 'bytes')
        return f"run sha256d_4 {self._P(case)} 12 [] {chunks}"

    def oracle(self, case, obs):
        if case.get('session'):
            return self.session_oracle(case, obs)
        magic = bytes(case['magic'])
        if case['kind'] == 'frame':
            cmd, p = bytes(case['cmd']), bytes(case['payload'])
            if len(cmd) > 12:
                return None if obs['framed'] is None else 'command longer than 12 bytes was framed'
            if obs['framed'] is None:
                # a command ending in NUL has no representation in the zero-padded field: refusing it is right
                return None if cmd.endswith(b'\0') else 'frame() refused a representable command of at most 12 bytes'
            if bytes(obs['framed']) != ref_frame(magic, cmd, p):
                return 'header is not magic, zero-padded command, LE length, dsha256[:4]'
            back = asyncio.run(_drive(magic, 2000000, 128000000, [obs['framed']]))
            if back != [['ok', list(cmd), list(p)]]:
                return 'framing a command and feeding the bytes back does not return the same command/payload'
            return None
        res = obs['results']
        stream = b''.join(bytes(c) for c in case['chunks'])
        if res != ref_parse(stream, magic, case['maxp'], case['maxb']):
            return 'results differ from the reference reader of the wire format'
        meta = case.get('meta') or {}
        if meta.get('msgs') is not None:
            exp = [['ok', m[0], m[1]] for m in meta['msgs']]
            admiss = [len(m[1]) <= case['maxp'] or (bytes(m[0]) == b'block' and len(m[1]) <= case['maxb']) for m in meta['msgs']]
            if meta.get('corrupt') is None and all(admiss):
                if res[:len(exp)] != exp:
                    return 'intact framed messages were not all delivered in order'
            elif meta.get('corrupt') in ('payload', 'sum') and all(admiss):
                k = meta['index']
                want = exp[:k] + [['checksum']] + exp[k + 1:]
                if res[:len(want)] != want:
                    return 'corrupted payload/checksum: expected a checksum error for that message only, the others intact'
            elif meta.get('corrupt') == 'magic' and all(admiss):
                k = meta['index']
                if res[:k + 1] != exp[:k] + [['magic']]:
                    return 'corrupted magic not reported as bad magic'
        return None

    # ---- a real MessageSession: every framing error is counted; bad magic / over-limit length close the connection
    @staticmethod
    def session_scenario(case):
        import asyncio as aio
        from harness import sessions
        from aiorpcx import MessageSession
        from aiorpcx import framing
        loop = sessions.new_loop()
        try:
            got = []

            class Srv(MessageSession):
                cost_decay_per_sec = 0
                if case.get('limits') == 'hard0':
                    cost_hard_limit = 0

                async def handle_message(self, message):
                    got.append([list(message[0]), len(message[1])])

            async def main():
                proto, ft, s = sessions.attach(Srv, 'client' if case.get('limits') == 'client' else 'server', case['transport'])
                f = framing.BitcoinFramer()
                stream = b''
                for m in case['msgs']:
                    b = bytearray(ref_frame(framing.BITCOIN_MAGIC, bytes(m['cmd']), bytes(m['payload'])))      # the peer's bytes: framed by the reference encoder
                    if m['fault'] == 'sum':
                        b[20] ^= 0x55
                    elif m['fault'] == 'magic':
                        b[0] ^= 0x55
                    elif m['fault'] == 'size':
                        b[16:20] = (f.max_payload_size + 1 + m.get('extra', 0)).to_bytes(4, 'little')
                    stream += bytes(b)
                for i in range(0, len(stream), case['chunk']):
                    if ft.lost:
                        break
                    proto.data_received(stream[i:i + case['chunk']])
                    await sessions.settle(4)
                await aio.sleep(35)
                return {'errors': s.errors, 'cost': s.cost, 'error_base_cost': s.error_base_cost, 'bw': s.bw_cost_per_byte, 'nbytes': len(stream),
                        'recv_count': s.recv_count, 'got': got, 'closing': ft.closing or ft.lost,
                        'pm_done': proto._process_messages_task.done()}
            return loop.run_until_complete(main())
        finally:
            sessions.close_loop(loop)

    @staticmethod
    def session_oracle(case, obs):
        # up to the first fatal fault: every message with a good checksum is handled, every fault is counted
        want_got, want_err, fatal = [], 0, False
        for m in case['msgs']:
            if m['fault'] in ('magic', 'size'):
                want_err += 1
                fatal = True
                break
            if m['fault'] == 'sum':
                want_err += 1
            else:
                want_got.append([list(m['cmd']), len(m['payload'])])
        if obs['got'] != want_got:
            return f"message session handled {obs['got']}, expected {want_got}"
        if obs['errors'] != want_err:
            return f"message session counted {obs['errors']} errors, expected {want_err}"
        # each framing error is charged the base error cost plus the cost its class carries
        from aiorpcx import framing as _fr
        want_cost = 0.0
        for m in case['msgs']:
            if m['fault'] == 'sum':
                want_cost += obs['error_base_cost'] + _fr.BadChecksumError.cost
            elif m['fault'] in ('magic', 'size'):
                want_cost += obs['error_base_cost'] + (_fr.BadMagicError.cost if m['fault'] == 'magic' else _fr.OversizedPayloadError.cost)
                break
        if 'cost' in obs and not (want_cost - 1e-6 <= obs['cost'] <= want_cost + obs['nbytes'] * obs['bw'] + 1e-6):
            return (f"the framing errors of this stream cost {obs['cost']:.3f}; base error cost plus the error-specific costs come to "
                    f"{want_cost:.3f} (plus at most {obs['nbytes'] * obs['bw']:.3f} for the bytes received)")
        if fatal and not obs['closing']:
            return 'the message session did not close the connection after bad magic / an over-limit length'
        if not fatal and obs['closing']:
            return 'the message session closed the connection although only checksum errors occurred'
        return None

    def extra_checks(self, ctx):
        from harness.core import Failure
        rng = ctx['rng']
        out = []
        n = 60 if ctx['tier'] == 'quick' else 600
        for _ in range(n):
            msgs = [{'cmd': list(rng.choice([b'ping', b'verack', b'tx', b'a' * 12, b'v\xe5rsion', b'\xfftx', b'inv\x80', b'\xc3'])), 'payload': list(bytes(rng.randrange(256) for _ in range(rng.choice([0, 1, 5, 40])))),
                     'fault': rng.choice(['none', 'none', 'none', 'sum', 'sum', 'magic', 'size'])} for _ in range(rng.randrange(1, 6))]
            # 'unlimited': a session whose cost limits are switched off (cost_hard_limit = 0, as on outgoing connections) or that
            # IS an outgoing connection - framing errors are counted and charged all the same
            case = {'session': True, 'msgs': msgs, 'chunk': rng.choice([1, 7, 24, 1000]), 'transport': rng.choice(['rs', 'us']),
                    'limits': rng.choice(['default', 'default', 'hard0', 'client'])}
            obs = self.session_scenario(case)
            ctx['extra_evals'] += 1
            cl = self.session_oracle(case, obs)
            if cl:
                out.append(Failure(case, obs, cl))
                if len(out) >= 3:
                    break
        ctx['notes'].append(f'message-session scenarios on a real MessageSession: {n} streams with checksum / magic / size faults')
        return out

    def classify(self, case, obs, clause):
        if case.get('session'):
            return None
        if case['kind'] == 'frame' and case['cmd'] and case['cmd'][-1] == 0 and len(case['cmd']) <= 12 \
                and 'feeding the bytes back' in clause:
            return 'F17'
        return None

    def nontrivial(self, case, obs):
        if case.get('session'):
            return True
        return case['kind'] == 'run' and len(case['chunks']) >= 2 and any(r[0] == 'ok' for r in obs['results'])

    def histogram(self, case, obs):
        if case.get('session'):
            return ['session']
        if case['kind'] == 'frame':
            return ['frame', 'frame_rejected' if obs['framed'] is None else 'frame_ok']
        h = ['run', 'corrupt=%s' % (case.get('meta') or {}).get('corrupt')]
        for r in obs['results']:
            h.append('res_' + r[0])
        return h


PROP = C07()
