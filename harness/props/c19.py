"""C19 - handler_invocation admits exactly the calls Python can bind (model/Invoke.v)."""
import inspect, itertools, functools
from harness.core import Prop, c_N, c_nat, c_list, c_bool, c_Z

KINDS = ['PO', 'PK', 'VP', 'KO', 'VK']
KMAP = {inspect.Parameter.POSITIONAL_ONLY: 'PO', inspect.Parameter.POSITIONAL_OR_KEYWORD: 'PK',
        inspect.Parameter.VAR_POSITIONAL: 'VP', inspect.Parameter.KEYWORD_ONLY: 'KO',
        inspect.Parameter.VAR_KEYWORD: 'VK'}


def wf(sig):
    order = [KINDS.index(k) for k, d in sig]
    if order != sorted(order):
        return False
    ks = [k for k, d in sig]
    if ks.count('VP') > 1 or ks.count('VK') > 1:
        return False
    seen = False
    for k, d in sig:
        if k in ('PO', 'PK'):
            if d:
                seen = True
            elif seen:
                return False
        if k in ('VP', 'VK') and d:
            return False
    return True


def src_of(sig, names, extra_first=None):
    parts = [extra_first] if extra_first else []
    ks = [k for k, d in sig]
    for i, (k, d) in enumerate(sig):
        n = names[i]
        s = n + ('=0' if d else '')
        if k == 'VP':
            s = '*' + n
        if k == 'VK':
            s = '**' + n
        if k == 'KO' and 'VP' not in ks and (i == 0 or sig[i - 1][0] != 'KO'):
            parts.append('*')
        parts.append(s)
        if k == 'PO' and (i + 1 == len(sig) or sig[i + 1][0] != 'PO'):
            parts.append('/')
    return ', '.join(parts)


def build(case):
    """the handler object for a case"""
    sig = [tuple(x) for x in case['sig']]
    names = [f'p{i}' for i in range(len(sig))]
    style = case['style']
    ns = {}
    if style == 'plain':
        exec(f"def f({src_of(sig, names)}): return 1", ns)
        return ns['f']
    if style == 'method':
        exec(f"class C:\n    def f({src_of(sig, names, 'self')}): return 1", ns)
        return ns['C']().f
    if style == 'method_noself':   # a bound method whose first declared parameter is *args (it receives the instance)
        exec(f"class C:\n    def f({src_of(sig, names)}): return 1", ns)
        return ns['C']().f
    if style == 'partial_pos':     # one extra leading positional parameter, pre-bound
        exec(f"def f({src_of([('PO' if sig and sig[0][0] == 'PO' else 'PK', False)] + sig, ['q'] + names)}): return 1", ns)
        return functools.partial(ns['f'], 7)
    if style == 'partial_kw':      # pre-bind the parameter named in case['prebind'] by keyword
        exec(f"def f({src_of(sig, names)}): return 1", ns)
        return functools.partial(ns['f'], **{case['prebind']: 5})
    if style == 'none':
        return None
    raise ValueError(style)


def observe(case):
    from aiorpcx.jsonrpc import handler_invocation, Request, RPCError
    h = build(case)
    call = case['call']
    # whether a call binds does not depend on the VALUES passed: named calls are also made with null / falsy values
    val = {'one': 1, 'none': None, 'zero': 0, 'empty': '', 'false': False, 'list': []}[call.get('val', 'one')]
    args = [val] * call['n'] if 'n' in call else {g: val for g in call['given']}
    res = {}
    try:
        inv = handler_invocation(h, Request('m', args))
        res['code'] = None
        try:
            inv()
            res['invoke'] = 'ok'
        except TypeError as e:
            res['invoke'] = 'TypeError'
    except RPCError as e:
        res['code'] = e.code
    except Exception as e:
        res['code'] = 'other:' + type(e).__name__
    if h is not None:
        try:
            h(*args) if isinstance(args, list) else h(**args)
            res['bind'] = True
        except TypeError:
            res['bind'] = False
        params = inspect.signature(h).parameters
        res['params'] = [[KMAP[p.kind], p.default is not p.empty, p.name] for p in params.values()]
    return res


class C19(Prop):
    id = 'C19'
    coq_header = 'From AV Require Import Base Invoke.'
    case_type = 'option sig * call * option Z * bool'
    check_fn = 'c19_ok'
    sizes = {'quick': 0, 'thorough': 0}
    shard = 400
    rule = ('ALL well-formed signatures of <= L parameters over the five kinds x defaults (L=3 quick, 4 thorough), as plain '
            'functions, bound methods (also ones declared with *args first), partials with positional and keyword pre-binding, x all positional counts 0..n+2 x '
            'all subsets of present / missing / unknown names (named calls also with null and falsy values); exhaustive; each case carries the outcome of the actual '
            'Python call; non-trivial = signature has >= 2 parameters; distinct = distinct (style, signature, call)')
    assumptions = ('inspect.signature is trusted to report the parameters of methods and partials',)

    def corpus(self):
        return [{'style': 'plain', 'sig': [['PK', False], ['KO', False]], 'call': {'n': 1}},
                {'style': 'plain', 'sig': [['PK', False], ['KO', False]], 'call': {'given': ['p0']}},
                {'style': 'partial_kw', 'sig': [['PK', False], ['PK', False]], 'prebind': 'p0', 'call': {'given': []}},
                {'style': 'plain', 'sig': [['PO', True], ['VK', False]], 'call': {'given': ['p0']}},
                {'style': 'none', 'sig': [], 'call': {'n': 0}}]

    def generate(self, rng, n, tier):
        L = 3 if tier == 'quick' else 4
        self._count = 0
        opts = [(k, d) for k in KINDS for d in (False, True)]
        for l in range(0, L + 1):
            for sig in itertools.product(opts, repeat=l):
                if not wf(sig):
                    continue
                names = [f'p{i}' for i in range(l)]
                styles = [('plain', None), ('method', None), ('partial_pos', None)]
                for i, (k, d) in enumerate(sig):
                    if k in ('PK', 'KO') and (l <= 3):
                        styles.append(('partial_kw', names[i]))
                if sig and sig[0][0] == 'VP':
                    styles.append(('method_noself', None))
                for style, pre in styles:
                    if style != 'plain' and l == L and tier == 'thorough' and L == 4 and style != 'method':
                        continue
                    for cnt in range(0, l + 3):
                        self._count += 1
                        yield {'style': style, 'sig': [list(x) for x in sig], 'prebind': pre, 'call': {'n': cnt}}
                    cand = names + ['zz']
                    for r in range(0, len(cand) + 1):
                        for given in itertools.combinations(cand, r):
                            self._count += 1
                            yield {'style': style, 'sig': [list(x) for x in sig], 'prebind': pre,
                                   'call': {'given': list(given)}}
                            if given and style in ('plain', 'method', 'method_noself'):
                                self._count += 1
                                yield {'style': style, 'sig': [list(x) for x in sig], 'prebind': pre,
                                       'call': {'given': list(given), 'val': ('none', 'zero', 'empty', 'false', 'list', 'none')[self._count % 6]}}

    def run_impl(self, case):
        return observe(case)

    def _nameid(self, name):
        if name == 'zz':
            return 999
        if name == 'q':
            return 998
        if name == 'self':
            return 997
        return int(name[1:]) + 1 if name[1:].isdigit() else 900 + (hash(name) % 50)

    def coq_case(self, case, obs):
        if isinstance(obs.get('code'), str):
            return None
        if case['style'] == 'none':
            h = '(@None sig)'
        else:
            ps = ['{| pk := %s; has_default := %s; pname := %s |}' % (k, c_bool(d), c_N(self._nameid(nm)))
                  for k, d, nm in obs['params']]
            h = f"(Some {c_list(ps, 'param')})"
        call = case['call']
        if 'n' in call:
            c = f"(ByPos {c_nat(call['n'])})"
        else:
            c = f"(ByName {c_list([c_N(self._nameid(g)) for g in call['given']], 'N')})"
        code = '(@None Z)' if obs['code'] is None else f"(Some {c_Z(obs['code'])})"
        return f"({h}, {c}, {code}, {c_bool(obs.get('bind', False))})"

    def oracle(self, case, obs):
        code = obs['code']
        if isinstance(code, str):
            return 'argument checking raised something other than RPCError: ' + code
        if case['style'] == 'none':
            return None if code == -32601 else 'missing handler not reported as method not found (-32601)'
        if code is None:
            if obs['invoke'] != 'ok':
                return 'accepted call does not bind: the returned invocation raises TypeError'
            if 'given' in case['call'] and any(k == 'PO' for k, d, n in obs['params']):
                return 'named arguments were accepted for a handler that has positional-only parameters (they are always refused)'
            return None
        if code != -32602:
            return f'refusal with code {code}, expected invalid params (-32602)'
        if obs['bind']:
            named = 'given' in case['call']
            has_po = any(k == 'PO' for k, d, n in obs['params'])
            if not (named and has_po):
                return 'a call Python can bind was refused'
        return None

    def classify(self, case, obs, clause):
        if 'does not bind' in clause and any(k == 'KO' and not d for k, d, n in obs.get('params', [])):
            return 'F13'
        return None

    def nontrivial(self, case, obs):
        return len(case['sig']) >= 2

    def key(self, case, obs):
        return repr((case['style'], case['sig'], case.get('prebind'), case['call']))

    def histogram(self, case, obs):
        return ['style=' + case['style'], 'accepted' if obs['code'] is None else 'code=%s' % obs['code'],
                'binds' if obs.get('bind') else 'nobind']

    def extra_checks(self, ctx):
        ctx['exhaustive'].append(f'{getattr(self, "_count", 0)} calls: all well-formed signatures up to the bound x all call shapes')
        return []


PROP = C19()
