import asyncio, selectors, heapq
class VSelector(selectors.BaseSelector):
    def __init__(self, loop_ref): self._loop_ref = loop_ref; self._map = {}
    def register(self, fileobj, events, data=None):
        k = selectors.SelectorKey(fileobj, fileobj if isinstance(fileobj,int) else fileobj.fileno(), events, data); self._map[fileobj]=k; return k
    def unregister(self, fileobj): return self._map.pop(fileobj)
    def select(self, timeout=None):
        loop = self._loop_ref[0]
        if timeout is None:
            raise RuntimeError('deadlock: nothing scheduled')
        if timeout > 0: loop._vtime += timeout
        return []
    def get_map(self): return self._map
    def close(self): pass
class VLoop(asyncio.SelectorEventLoop):
    def __init__(self):
        ref = [None]; self._vtime = 0.0
        super().__init__(VSelector(ref)); ref[0] = self
        self._clock_resolution = 1e-9
    def time(self): return self._vtime
class FakeTransport(asyncio.Transport):
    def __init__(self, proto, hwm=None, sockbuf=None):
        super().__init__(); self.proto = proto; self.written = []; self.closing=False; self.reading=True; self.log=[]
        self.buffered = 0; self.hwm = hwm; self.paused=False; self.lost=False
        # sockbuf: model of the kernel's send buffer - only that many bytes of a write go out at once, the rest is
        # queued in user space and goes out [sockbuf] bytes per 10 ms; a graceful close() flushes the queue before
        # the connection is lost, abort() discards it (as asyncio's transports do).  None: everything goes out at once.
        self.sockbuf = sockbuf; self.pending_out = bytearray(); self.discarded = 0
    def _drain_out(self):
        if self.lost or not self.pending_out: return
        self.written.append(bytes(self.pending_out[:self.sockbuf])); del self.pending_out[:self.sockbuf]
        if self.pending_out: asyncio.get_event_loop().call_later(0.01, self._drain_out)
        elif self.closing: asyncio.get_event_loop().call_soon(self._lost)
    def write(self, data):
        self.log.append(('write', data))
        if self.sockbuf is not None:
            if self.pending_out or len(data) > self.sockbuf:
                first = b'' if self.pending_out else bytes(data[:self.sockbuf])
                if first: self.written.append(first)
                was_empty = not self.pending_out
                self.pending_out += data[len(first):]
                if was_empty: asyncio.get_event_loop().call_later(0.01, self._drain_out)
                return
        self.written.append(data)
        if self.hwm is not None:
            self.buffered += len(data)
            if self.buffered > self.hwm and not self.paused:
                self.paused = True; self.proto.pause_writing()
    def drain(self):
        self.buffered = 0
        if self.paused: self.paused=False; self.proto.resume_writing()
    def is_closing(self): return self.closing
    def close(self):
        if not self.closing:
            self.closing=True; self.log.append(('close',))
            if not self.pending_out: asyncio.get_event_loop().call_soon(self._lost)      # else: once the queue is flushed
    def abort(self):
        self.log.append(('abort',))
        self.discarded += len(self.pending_out); self.pending_out.clear()
        if not self.lost:
            self.closing=True; asyncio.get_event_loop().call_soon(self._lost)
    def _lost(self):
        if not self.lost:
            self.lost=True; self.proto.connection_lost(None)
    def pause_reading(self): self.reading=False; self.log.append(('pause_reading',))
    def resume_reading(self): self.reading=True; self.log.append(('resume_reading',))
    def get_extra_info(self, name, default=None): return ('1.2.3.4', 5) if name=='peername' else default
