# A single-steppable event loop replicating BaseEventLoop._run_once ordering, virtual time.
import asyncio, heapq, collections
from asyncio import events
class StepLoop(asyncio.AbstractEventLoop):
    def __init__(self):
        self._ready = collections.deque(); self._scheduled = []; self._time = 0.0
        self._ntodo = 0; self._debug = False; self.exc = []; self.trace = None
        self._task_factory = None
    # --- scheduling API used by asyncio internals
    def time(self): return self._time
    def get_debug(self): return False
    def is_running(self): return True
    def is_closed(self): return False
    def call_soon(self, cb, *args, context=None):
        h = events.Handle(cb, args, self, context); self._ready.append(h); return h
    def call_at(self, when, cb, *args, context=None):
        h = events.TimerHandle(when, cb, args, self, context); heapq.heappush(self._scheduled, h); h._scheduled = True; return h
    def call_later(self, delay, cb, *args, context=None): return self.call_at(self._time + delay, cb, *args, context=context)
    def _timer_handle_cancelled(self, h): pass
    def create_future(self): return asyncio.Future(loop=self)
    def create_task(self, coro, *, name=None, context=None):
        if self._task_factory: return self._task_factory(self, coro)
        return asyncio.Task(coro, loop=self, name=name)
    def set_task_factory(self, f): self._task_factory = f
    def call_exception_handler(self, ctx): self.exc.append(ctx)
    def default_exception_handler(self, ctx): self.exc.append(ctx)
    # --- stepping
    def _begin_iteration(self):
        while self._scheduled and self._scheduled[0]._cancelled: heapq.heappop(self._scheduled)
        if not self._ready and self._scheduled:
            if self._scheduled[0]._when > self._time: self._time = self._scheduled[0]._when
        while self._scheduled and self._scheduled[0]._when <= self._time:
            h = heapq.heappop(self._scheduled); h._scheduled = False
            self._ready.append(h)
        self._ntodo = len(self._ready)
    def pending(self):
        return any(not h._cancelled for h in self._ready) or any(not h._cancelled for h in self._scheduled)
    def tick(self):
        """Run exactly one (non-cancelled) handle. Returns the handle or None if nothing to do."""
        while True:
            if self._ntodo == 0:
                self._begin_iteration()
                if self._ntodo == 0: return None
            h = self._ready.popleft(); self._ntodo -= 1
            if h._cancelled: continue
            events._set_running_loop(self)
            try:
                if self.trace is not None: self.trace(h)
                h._run()
            finally: events._set_running_loop(None)
            return h
    def drain(self, limit=100000, until_time=None):
        n=0
        while n<limit:
            if until_time is not None and not any(not h._cancelled for h in self._ready) and self._ntodo==0:
                nxt=[h for h in self._scheduled if not h._cancelled]
                if not nxt or min(h._when for h in nxt) > until_time: break
            if self.tick() is None: break
            n+=1
        return n
    def quiesce(self, limit=100000):
        """run ready handles (and timers already due) without advancing time"""
        n=0
        while n<limit:
            if self._ntodo==0:
                while self._scheduled and self._scheduled[0]._cancelled: heapq.heappop(self._scheduled)
                due = self._scheduled and self._scheduled[0]._when <= self._time
                if not self._ready and not due: break
            if self.tick() is None: break
            n+=1
        return n
