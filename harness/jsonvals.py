"""Python values <-> Coq [json] terms, and generators of JSON-representable values."""
import math
from harness.core import c_Z, c_bool, c_list, c_nlist

STRS = ['', 'a', 'method', 'é', '€', '\U0001F600', '\x00', '\x1f', '\x7f', '"', '\\', '/', '\n\r\t\b\f',
        '\ud800', '\udfff', 'x\ud83dy', ' ', 'jsonrpc', '2.0', 'id', 'result', 'error', 'params', 'code', 'message']


def text_term(s):
    return c_nlist(ord(ch) for ch in s)


def float_tok(x):
    if math.isnan(x):
        return 'nan'
    if math.isinf(x):
        return 'inf' if x > 0 else '-inf'
    return repr(x)


def json_term(v):
    if v is None:
        return 'JNull'
    if v is True or v is False:
        return f'(JBool {c_bool(v)})'
    if isinstance(v, int):
        return f'(JInt {c_Z(v)})'
    if isinstance(v, float):
        return f'(JFloat {text_term(float_tok(v))})'
    if isinstance(v, str):
        return f'(JStr {text_term(v)})'
    if isinstance(v, (list, tuple)):
        return f"(JArr {c_list([json_term(x) for x in v], 'json')})"
    if isinstance(v, dict):
        return "(JObj %s)" % c_list([f'({text_term(k)}, {json_term(x)})' for k, x in v.items()], 'text * json')
    raise TypeError(type(v))


def to_plain(v):
    """JSON-serialisable description of a Python value for replay files (floats/surrogates safe)"""
    if isinstance(v, float):
        return {'__float__': float_tok(v)}
    if isinstance(v, str):
        return {'__str__': [ord(c) for c in v]} if any(0xD800 <= ord(c) <= 0xDFFF for c in v) else v
    if isinstance(v, (list, tuple)):
        return [to_plain(x) for x in v]
    if isinstance(v, dict):
        return {'__dict__': [[to_plain(k), to_plain(x)] for k, x in v.items()]}
    return v


def from_plain(v):
    if isinstance(v, dict):
        if '__float__' in v:
            return float(v['__float__'])
        if '__str__' in v:
            return ''.join(chr(c) for c in v['__str__'])
        if '__dict__' in v:
            return {from_plain(k): from_plain(x) for k, x in v['__dict__']}
    if isinstance(v, list):
        return [from_plain(x) for x in v]
    return v


def gen_str(rng):
    if rng.random() < 0.6:
        return rng.choice(STRS)
    n = rng.randrange(0, 6)
    out = []
    for _ in range(n):
        c = rng.choice([rng.randrange(0, 0x80), rng.randrange(0x80, 0x800), rng.randrange(0x800, 0xD800),
                        rng.randrange(0xE000, 0x10000), rng.randrange(0x10000, 0x110000),
                        rng.randrange(0xD800, 0xE000)])
        # no high surrogate directly followed by a low one (json would merge them: note N4)
        if out and 0xD800 <= ord(out[-1]) <= 0xDBFF and 0xDC00 <= c <= 0xDFFF:
            c = 0x41
        out.append(chr(c))
    return ''.join(out)


def gen_scalar(rng):
    r = rng.random()
    if r < 0.12:
        return None
    if r < 0.24:
        return rng.choice([True, False])
    if r < 0.5:
        return rng.choice([0, 1, -1, 255, 2 ** 31, -2 ** 63, 10 ** 30, -(10 ** 40) + 7, rng.randrange(-1000, 1000)])
    if r < 0.65:
        return rng.choice([0.0, -0.0, 1.5, 1e22, 1e-7, 123456.789, 5e-324, 1.7976931348623157e308, rng.random() * 1000])
    return gen_str(rng)


def gen_value(rng, depth=3):
    r = rng.random()
    if depth == 0 or r < 0.5:
        return gen_scalar(rng)
    if r < 0.75:
        return [gen_value(rng, depth - 1) for _ in range(rng.randrange(0, 4))]
    d = {}
    for _ in range(rng.randrange(0, 4)):
        d[gen_str(rng)] = gen_value(rng, depth - 1)
    return d
