"""bin/check <Cxx> <quick|thorough> [--replay file]"""
import sys, os, importlib
from harness import core


def main(argv):
    if len(argv) < 1:
        print('usage: bin/check <Cxx> [quick|thorough] [--replay file]')
        return 2
    pid = argv[0].upper()
    tier = os.environ.get('VERIF_TIER') or 'quick'
    replay = None
    rest = argv[1:]
    while rest:
        a = rest.pop(0)
        if a in ('quick', 'thorough'):
            tier = a
        elif a == '--replay':
            replay = rest.pop(0)
    seed = int(os.environ.get('VERIF_SEED', '0') or 0)
    mod = importlib.import_module(f'harness.props.{pid.lower()}')
    prop = mod.PROP
    return core.run_check(prop, tier, seed, replay)


if __name__ == '__main__':
    sys.exit(main(sys.argv[1:]))
