"""bin/check <Cxx> <quick|thorough> [--replay file]"""
import sys, os, importlib
from harness import core


def main(argv):
    if len(argv) < 1:
        print('usage: bin/check <Cxx> [quick|thorough] [--replay file]')
        return 2
    pid = argv[0].upper()
    tier = os.environ.get('VERIF_TIER') or 'quick'
    replay = None
    rest = argv[1:]
    while rest:
        a = rest.pop(0)
        if a in ('quick', 'thorough'):
            tier = a
        elif a == '--replay':
            replay = rest.pop(0)
    seed = int(os.environ.get('VERIF_SEED', '0') or 0)
    mod = importlib.import_module(f'harness.props.{pid.lower()}')
    prop = mod.PROP
    try:
        return core.run_check(prop, tier, seed, replay)
    except Exception:
        # fail closed: a crash of the machinery means the property is not shown to hold on this tree
        import traceback
        tb = traceback.format_exc()
        sys.stderr.write(tb)
        path = core.write_replay(pid, {'property': pid, 'kind': 'machinery',
                                       'what': 'the check itself failed before reaching a verdict', 'traceback': tb[-3000:]})
        print(f'VIOLATION property={pid} replay={path} no-failing-input-found')
        return 1


if __name__ == '__main__':
    sys.exit(main(sys.argv[1:]))
